#!/venv/bin/python
# Regenerates section 8.6 of DESIGN.md (reach of the quick tier) from evidence/*.json as written by the last `bin/check <ID>` runs.
import json
import os

VERIF = os.path.dirname(os.path.dirname(os.path.abspath(__file__)))
p = os.path.join(VERIF, 'DESIGN.md')
s = open(p).read()
start = s.index('### 8.6 Reach')
end = s.index('### 8.7 Independent seeded changes')


def k(n):
    n = int(n)
    if n >= 10 ** 6:
        return '%.2f M' % (n / 1e6)
    if n >= 10 ** 4:
        return '%d k' % round(n / 1e3)
    return str(n)


rows = []
for pid in ('C02', 'C06', 'C12', 'C15', 'C16', 'C20'):
    e = json.load(open(os.path.join(VERIF, 'evidence', pid + '.json')))
    c = e['coverage']
    notable = dict(c.get('faults_fired', {}))
    notable.update(c.get('probes', {}))
    notable.update({kk: v for kk, v in c.get('other_counters', {}).items() if kk.startswith('sched.') or kk.startswith('discard.violation')})
    top = sorted(notable.items(), key=lambda kv: -kv[1])
    # the most frequent ones and, separately, the rarest ones that did fire (what a reader most wants to know)
    picks = top[:4] + [kv for kv in sorted(notable.items(), key=lambda kv: kv[1]) if kv[1] > 0][:3]
    seen = set()
    txt = []
    for name, v in picks:
        if name in seen:
            continue
        seen.add(name)
        txt.append('%s %s' % (name.split('.', 1)[1].replace('_', ' '), k(v)))
    rows.append('| %s | %s | %s | %s | %.0f s | %s | %s |' % (pid, k(c['simulated_runs']), k(c['evaluations']), k(c['distinct_nontrivial']), e['wall_s'],
                                                            k(c['runs_per_hour']), '; '.join(txt)))
txt = """### 8.6 Reach (quick tier, seed %s, 16 workers, unchanged tree; from `evidence/*.json` of the last run)

| check | runs | evaluations | distinct non-trivial | wall | runs / hour | fault kinds and probes: the four most frequent, then the three rarest that fired |
|-------|------|-------------|----------------------|------|-------------|--------------------------------|
%s

The evidence files carry the full measured numbers of the last run, including
runs and evaluations per hour, logical steps (seam events; there is no
simulated clock because the system has none), every fault kind with the number
of times it actually fired, probes, discards (including violations that did
not reproduce from a pristine start), and the real / stub component lists.

""" % (json.load(open(os.path.join(VERIF, 'evidence', 'C02.json')))['seed'], '\n'.join(rows))
open(p, 'w').write(s[:start] + txt + s[end:])
print('section 8.6 regenerated')
