#!/venv/bin/python
# Regenerates section 8.7 of DESIGN.md (the table of independent seeded changes) from seeded/*/meta.json.
import glob
import json
import os

VERIF = os.path.dirname(os.path.dirname(os.path.abspath(__file__)))
p = os.path.join(VERIF, 'DESIGN.md')
s = open(p).read()
start = s.index('### 8.7 Independent seeded changes')
end = s.index('About the interpreter-exit case')
rows, missed, proactive = [], [], []
for d in sorted(glob.glob(os.path.join(VERIF, 'seeded', '*', 'meta.json'))):
    m = json.load(open(d))
    c = m.get('check', {})
    sig = ', '.join(sorted(set('/'.join(x.split('/')[1:3]) for x in c.get('signatures', [])))[:3])
    need = m.get('needs_to_manifest', '').replace('|', '\\|')
    if len(need) > 170:
        need = need[:167] + '...'
    h = m.get('history') or ''
    was_missed = h.startswith('missed') or h.startswith('first run ended in HARNESS-ERROR')
    was_proactive = 'would have missed it' in h
    rows.append('| %s | %s | `%s` | %s%s |' % (m['id'], need, sig, c.get('first_violating_run'), ' (after strengthening)' if (was_missed or was_proactive) else ''))
    if was_missed:
        missed.append((m['id'], h))
    elif was_proactive:
        proactive.append((m['id'], h))
n = len(rows)
txt = """### 8.7 Independent seeded changes (`seeded/`, `tools/seed_eval.py`, `bin/selftest seeded`)

%d changes were written in fourteen rounds by fresh sub-agents that saw only the
text of one property and a scratch worktree (nothing from `/verif`; from round 2
on they were also given a list of the *ideas* already used, so that they would
look elsewhere; round 4 asked for cooperating edits in two files and at least
three coinciding conditions; round 6 asked for a *category* of mistake absent
from the list - data values nobody tests with, interpreter limits, clean-up
code failing inside clean-up code, caller-owned handles; round 8 asked for
size thresholds, numeric edge values, unusual legal spellings and
empty / single-record inputs; round 9 for error and clean-up paths, optional
arguments of the public functions, the CLI front-ends and combinations of two
features that each work alone; round 10 for mistakes of timing and ownership
and for unusual but legal data; round 11 for the interaction with code that is
not RBQL's own - caller-supplied iterators and writers, the platform's
latitude - and for bookkeeping and metadata rather than record values; round 12
for code adjacent to the anchors (query-text parsing, helpers, defaults) and
for mistakes that need size or repetition; round 13 for what a linter fix or
an automatic modernisation would introduce, and for restructured control flow
that skips a step in a rare state; round 14, two per property, for one specific
coincidence each - a read or chunk boundary at a named feature of the text, a
named clause combination, a named fault point - and for the JavaScript engine
and the pandas / sqlite front-ends). Each was asked for a realistic change that still
compiles, leaves the repository's tests unchanged and needs something specific
to manifest, with a demonstration. For each one `tools/seed_eval.py` confirmed,
in scratch worktrees that were removed afterwards: the patch applies to HEAD;
the demonstration passes on HEAD and fails with the patch;
`tools/tree_tests.sh` gives the same failing sets on both trees; then the
property's quick check was run against the patched tree (`RBQL_REPO`).
`seeded/<id>/` holds `patch.diff`, the demonstration, the author's notes and
`meta.json` (what it needs, what was run, which oracle fired, at which run
index, and - where applicable - why it was missed at first).
`bin/selftest seeded` re-runs all of them against the current checks.

%d are kept. One was **rejected as not breaking its property**
(C12: `rbql_main.sample_lines/sample_records` reading only the first 64 KiB of
the file): what the samplers return is then a wrong but *content-determined*
function of the file - every read schedule of the same content gives the same
answer - so the chunking-independence statement of C12 still holds, and a
check that is right about that must stay quiet.

| id | needs | caught by (oracle) | first violating run (quick tier, seed 0) |
|----|-------|--------------------|-------------------------------------------|
%s

%d were **missed at first**; each miss was a gap in the workload or in what the
simulator observes, never a loosened oracle, and was closed by extending the
machinery (the numbers in the table are after that extension):

%s

%d more were caught only because the workload had been widened in the direction
of the round's brief while the sub-agents were still writing (the version of
the check committed before the round would have missed them; they are counted
apart because the widening was not a reaction to the change itself):

%s

""" % (n + 1, n, '\n'.join(rows), len(missed), '\n'.join('* `%s`: %s' % (i, h.replace('missed at first: ', '').replace('missed at first ', '')) for i, h in missed),
       len(proactive), '\n'.join('* `%s`: %s' % (i, h) for i, h in proactive))
open(p, 'w').write(s[:start] + txt + s[end:])
print('section 8.7 regenerated:', n, 'kept,', len(missed), 'missed at first,', len(proactive), 'closed ahead of evaluation')
