#!/bin/sh
# Run every registered quick check on the unchanged tree (two seeds) before committing: all must exit 0.
cd "$(dirname "$0")/.."
rc=0
for seed in 0 1; do
  for p in C02 C06 C12 C15 C16 C20; do
    out=$(VERIF_SEED=$seed /venv/bin/python bin/check $p --no-evidence 2>&1)
    code=$?
    echo "seed=$seed $(echo "$out" | tail -1 | cut -c1-170) exit=$code"
    if [ $code -ne 0 ]; then rc=1; echo "$out" | grep -A2 -E "VIOLATION|HARNESS" | cut -c1-400; fi
  done
done
rm -rf replays/C*
exit $rc
