#!/venv/bin/python
# Regenerates /verif/MANIFEST.json from the tables below (keeps it valid and in one place).
import json
import os
import sys

VERIF = os.path.dirname(os.path.dirname(os.path.abspath(__file__)))

TECH = 'deterministic simulation with fault injection (seeded schedules and faults, replayable)'

CHECKS = {
    'C12': {
        'level': 'exploration',
        'text': ('Seeded search over delivery schedules of the input stream: the real CSVRecordIterator is run over simulated text streams (prescribed '
                 'read() pieces) and simulated raw byte sources under CPython BufferedReader/TextIOWrapper (prescribed short reads, random buffer sizes, '
                 'both stream shapes), all compositions for short contents and sampled ones otherwise, crossed with the chunk_size knob; every outcome '
                 '(records, header, warnings or IO error) must equal the whole-delivery run and a reference model of record assembly (LF/CR/CRLF, '
                 'unterminated last line, comments, BOM, quoted_rfc continuation). Sampling, not proof.'),
        'design_ref': 'DESIGN.md 3.3',
        'note': ('Trusted: csv_utils.smart_split (C11), CPython io stack, the simulated stream honouring the file-object contract. Contents, dialects and long '
                 'schedules are sampled from VERIF_SEED; short contents get all 2^(n-1) schedules.'),
        'technique': 'deterministic simulation: seeded read-schedule (chunking) search over simulated streams, differential vs whole delivery + reference model',
    },
}

CHECKS['C15'] = {
    'level': 'fault_enumeration',
    'text': ('For each seeded scenario (query shape x front-end x dialect x buffer knobs) the fault points are enumerated against the real code: the output sink breaks at '
             'every write-call index or after every accepted-byte budget (inside write, at the final flush, at close), a user writer refuses at every write index, one invalid '
             'UTF-8 byte is placed at every position of the input or join table under a seeded read schedule, and a catalogue of error paths (parse, syntax, runtime at record k, '
             'IO, missing files, sqlite) is run through query_csv, query_sqlite_to_csv and the in-process CLI with a tracked open(). Checked: returns without error, emitted bytes are a '
             'prefix of the fault-free output, stops within one pull/one write attempt, IO-handling error and never garbage or a raw UnicodeDecodeError, every opened handle closed, '
             'writer call protocol. Scenarios are sampled; fault points within a scenario are complete (strided for long outputs).'),
    'design_ref': 'DESIGN.md 3.4',
    'note': ('Trusted: the fault-free run of the same code as prefix reference; CPython io stack; simulated sinks/sources. One real OS pipe (reader gone before the run) is used for the exit-status clause; a reader disappearing mid-output, shutdown GC order and '
             'interactive mode are not covered. "Promptly" = at most one further pull and one further write attempt after the first failed record write.'),
    'technique': 'deterministic simulation with fault injection: enumerated sink-break / refusal / bad-byte / error points per seeded scenario, history oracles',
}

CHECKS['C16'] = {
    'level': 'exploration',
    'text': ('Seeded search over histories and thread interleavings against the oracle "the same operation alone in a fresh interpreter" (executed in a fork of a separately started bare '
             'python process that has imported rbql and nothing else; operations that need pandas use a fork of the harness process, which never runs a query itself). Part A: histories of 1-6 operations through query_table, engine.query, query_csv, query_dataframe and the in-process CLI, mixing successes '
             'of every kind with parse, syntax, runtime and IO failures, plus the module-level debug flags after every operation. Part B: 2-3 queries of different kinds over tables '
             'of <= 4 records in real threads under a baton scheduler; the seeded picks list decides who runs at every get_record / write / set_header / finish / registry call and, '
             'in a fraction of runs, at every N-th source line of rbql_engine; a small fraction of pairs is enumerated exhaustively (every interleaving of the seam steps of two '
             'one-record queries). A schedule in which nobody can move any more (a lock held across scheduling points) is reported as a violation. Interpreter-wide state (signal '
             'handlers, sys.path, digit limit, locale, warning filters, ...) is compared before and after. Otherwise sampling of schedules.'),
    'design_ref': 'DESIGN.md 3.5',
    'note': ('Trusted: the tree run alone as reference (self-differential), fork() giving an identical pristine interpreter. Pre-emption granularity: seam calls and source lines, '
             'not bytecodes. Python engine only (the JS module-global context is a documented limitation outside the claim).'),
    'technique': 'deterministic simulation: baton-scheduled real threads with seeded explicit schedules + seeded operation histories, differential vs pristine-interpreter run',
}

CHECKS['C02'] = {
    'level': 'exploration',
    'text': ('Seeded search over (query, producer) pairs with the record producer and the output writer behind the simulator: finite tables, endless generators (dense, sparse, periodic) '
             'and producers that stall without EOF. Decides the consumption / termination clause at the iterator seam: a bounded non-buffering query may pull no more records than its first n outputs need (the smallest input prefix over '
             'which the unbounded query already yields n outputs), so it terminates on endless and stalled input; TOP/LIMIT output equals the first n records of the unbounded run. '
             'As a by-product the recorded finite histories are compared with a sort/dedup/truncate model (ties in input order, DESC = reverse, DISTINCT first occurrence, DISTINCT COUNT). '
             'Both the Python engine and rbql.js (through the Node driver) are executed. Sampling, not proof.'),
    'design_ref': 'DESIGN.md 3.1',
    'note': ('Trusted: the engine\'s own unsorted projected stream as input of the order model; the unbounded run as reference for the bound. n = 0 is treated leniently (pulls up to the first '
             'candidate tolerated). The ordering clauses are pure functions of the input: they are checked because the histories exist, the level claimed rests on the producer simulation.'),
    'technique': 'deterministic simulation: unbounded / stalling record producers and seam traces (pulls vs writes), seeded query and producer search, reference-model comparison',
}

CHECKS['C20'] = {
    'level': 'exploration',
    'text': ('Seeded search over chunk boundaries, per-chunk delivery timing (sync push, nextTick, promise continuation, setImmediate), consumer pacing (get_all_records, manual '
             'loop with event-loop turns between calls, header pre-read with pause/resume, full rbql.query) and highWaterMark, with a real Node stream.Readable driven by an explicit '
             'plan: all chunkings of inputs up to 7 bytes, sampled chunkings for longer ones, plus > 64 KiB files through fs.createReadStream. Every outcome (records, header, warnings) '
             'must equal bulk reading of the same bytes, valid UTF-8 must never be rejected, and every pending get_record must settle within 8 event-loop turns after EOF. Sampling.'),
    'design_ref': 'DESIGN.md 3.6',
    'note': ('Trusted: bulk mode of the same reader as reference (the property\'s own reference), Node\'s Readable and TextDecoder. Only valid UTF-8 / binary inputs are generated. '
             'Stream error events and stop()/destroy() are not simulated.'),
    'technique': 'deterministic simulation: plan-driven Node Readable (chunking x timing class x consumer pacing), differential vs bulk read, turn-counted liveness watchdog',
}

CHECKS['C06'] = {
    'level': 'exploration',
    'text': ('Seeded histories of 1-6 operations (SELECT / UPDATE / JOIN / EXCEPT / UNNEST / aggregates, succeeding or failing) against one world that holds the same data as Python '
             'lists (shared, ragged, None rows), CSV files, a sqlite file, two DataFrames and rbql-js arrays, each operation through a seeded front-end with faults placed inside it '
             '(runtime error at record k, parse / syntax error, unknown join table, breaking output sink, refusing writer, undecodable join file, hostile sqlite identifiers in the '
             'input-table and JOIN positions). After every operation the storage seams are inspected: deep equality and row identities of the lists, no output row aliasing an input '
             'row (then outputs are mutated and sources compared again), sha256 of every CSV source, sqlite file hash + total_changes + every traced statement matching '
             'SELECT * FROM <ident>;, DataFrame equality/dtypes/index, and the Node driver\'s report for the JS arrays. Sampling.'),
    'design_ref': 'DESIGN.md 3.2',
    'note': ('Trusted: sha256 / DataFrame.equals / sqlite total_changes and trace callback as observers. output_path == input_path is not generated. A writable open mode on a source '
             'is reported as a probe only: the content hash is the oracle.'),
    'technique': 'deterministic simulation with fault injection: seeded operation histories with in-operation faults over all source kinds, conservation invariant checked at the storage seams after every step',
}

NOT_APPLICABLE = {
    'C01': 'pure function of (query text, table): no stream schedule, interleaving, history or fault in the statement, nothing for a simulator to own',
    'C03': 'aggregate values are a pure function of the group records in input order; accumulator state never meets a seam',
    'C04': 'join pairing is a pure function of the two tables; B is read fully before A starts, nothing depends on delivery',
    'C05': 'UPDATE output is a pure function of (assignment list, table)',
    'C07': 'output header is computed from query text and input header before any record moves; pure',
    'C08': 'invariance under respelling relates two pure evaluations of the parser; no schedule or fault',
    'C09': 'name-to-column binding is a function of (header, query, flag); the stateful part (pre-read first line under arbitrary read schedules) is covered by C12',
    'C10': 'write-then-read round trip is a pure function of (table, dialect)',
    'C11': 'split is a pure string function',
    'C13': 'differential statement over entry points and configurations; its fault-facing side (pipes, undecodable stdin, CLI exit status) is exercised under C15',
    'C14': 'which error/warning is produced and the record number in it is a pure function of (query, table)',
    'C17': 'like() is a pure function of two strings',
    'C18': 'Python/JS agreement on the same input is a pure differential statement',
    'C19': 'JS engine vs reference semantics is a pure differential statement; its last clause (caller arrays unmodified) is observed by the C06 JS workload',
}

PENDING = {} if True else {pid: 'check not built yet in this commit (simulation target, planned in DESIGN.md section 3); not claimed until its check exists' for pid in ('C06',)}


def main():
    checks = []
    for pid in sorted(CHECKS):
        c = CHECKS[pid]
        checks.append({
            'property_id': pid,
            'quick_cmd': '/venv/bin/python bin/check %s --tier quick' % pid,
            'thorough_cmd': '/venv/bin/python bin/check %s --tier thorough' % pid,
            'evidence_file': '/verif/evidence/%s.json' % pid,
            'replay_cmd_template': '/venv/bin/python bin/check %s --replay {path}' % pid,
            'engine': 'rbqlsim',
            'level_claimed': {'category': c['level'], 'text': c['text'], 'design_ref': c['design_ref']},
            'level_note': c['note'],
            'technique': c['technique'],
        })
    na = [{'property_id': k, 'reason': v} for k, v in sorted(NOT_APPLICABLE.items())]
    for k, v in sorted(PENDING.items()):
        if k not in CHECKS:
            na.append({'property_id': k, 'reason': v})
    na.sort(key=lambda e: e['property_id'])
    doc = {
        'version': 1,
        'setup_cmd': 'sh bin/setup',
        'hooks': {
            'guard': 'RBQL_VERIF',
            'enable': 'no hooks: every seam is a public interface (stream / iterator / writer / registry arguments, module-global open, sys.std*, HOME); RBQL_VERIF is reserved and unused',
            'baseline_off_cmd': 'cd /repo && /venv/bin/python -m pytest -ra -q -p no:cacheprovider --timeout=900 --continue-on-collection-errors',
            'source_commits': [],
            'add_only': True,
        },
        'engines': [{
            'name': 'rbqlsim',
            'path': '/verif/rbqlsim',
            'serves_properties': sorted(CHECKS),
            'kind_free_text': ('deterministic simulator written for this repository: scenario generator seeded from VERIF_SEED, executor that is a pure function '
                               'of (scenario JSON, tree), simulated streams / sinks / iterators / writers / thread baton scheduler / Node Readable driver, '
                               'greedy shrinker over explicit schedules and faults, fresh-process replay'),
        }],
        'checks': checks,
        'notes': ('bin/check <ID> --tier quick|thorough; VERIF_SEED selects the batch seed; RBQL_REPO (default /repo) selects the tree. Exit 0 held / 1 VIOLATION / 2 HARNESS-ERROR. '
                  'Replays are written to /verif/replays/<id>/<seed>-<run>.json and reproduce with the replay command.'),
        'not_applicable': na,
    }
    with open(os.path.join(VERIF, 'MANIFEST.json'), 'w') as f:
        json.dump(doc, f, indent=1)
        f.write('\n')
    try:
        import jsonschema
        schema = json.load(open('/root/.vp/MANIFEST.schema.json'))
        jsonschema.validate(doc, schema)
        print('MANIFEST.json valid:', len(checks), 'checks,', len(na), 'not applicable')
    except ImportError:
        print('MANIFEST.json written (jsonschema not importable here)')


if __name__ == '__main__':
    main()
