import json, sys
pid, k, angle = sys.argv[1], sys.argv[2], sys.argv[3]
prop = open('/tmp/prop-%s.json' % pid).read()
used = open('/tmp/used_ideas.txt').read()
wt = '/tmp/seed-%s-%s' % (pid, k)
print(f"""You are helping to evaluate a verification tool. Your job is to write ONE realistic, subtle bug into a copy of the open-source project mechatroner/RBQL (an SQL-like query engine over CSV / lists / pandas / sqlite, with a Python implementation in rbql-py/ and a JavaScript one in rbql-js/), such that the bug breaks the semantic property given below, while the code still loads/compiles and the project's existing tests still pass.

Work ONLY inside your own scratch git worktree: {wt}  (it is a git worktree of the repository at its current HEAD). Do NOT read or write anything under /verif or /repo, and do not look at other /tmp/seed-* directories. Do not commit; leave your change as uncommitted modifications in the worktree.

THE PROPERTY (a JSON record; 'statement' is what must always hold, 'anchors' points at the code that is meant to make it hold):
{prop}

{used}

WHAT I WANT
1. A small source change (typically 1-15 lines, in the files a maintainer would plausibly touch - e.g. a refactor, an optimisation, a "simplification", an off-by-one, a moved statement, a fast path, a cache, state kept in the wrong place) that makes the property FALSE for some inputs / schedules / fault points, but that ordinary use would NOT expose at once. It must need something specific to manifest: {angle}. Two cooperating edits that each look fine alone are welcome. Do not write a bug that breaks every query or that the existing tests catch. Do not add obviously artificial triggers (magic strings, environment variables, random numbers, clocks).
2. The existing tests must still pass with your change. Note these facts about the test setup:
   - The pinned command `cd <tree> && /venv/bin/python -m pytest -ra -q -p no:cacheprovider --timeout=900 --continue-on-collection-errors` imports the site-packages copy of rbql, so it passes trivially (45 passed, 2 failed, 1 error is the normal baseline).
   - The meaningful run is against the tree itself, from a scratch COPY of your worktree (the tests write files next to themselves, so copy the worktree to another /tmp directory first and run there):
       cd <copy> && PYTHONPATH=./rbql-py PYTHONHASHSEED=0 /venv/bin/python -W ignore -m unittest test.test_csv_utils test.test_rbql test.test_rbql_sqlite test.test_rbql_pandas test.test_mad_max
     On the unmodified tree exactly two tests fail (test_json_scenarios in test.test_csv_utils and test_column_name_parsing in test.test_rbql: Python 3.12 removed ast.Index); the set of failing tests must be the same with your change. (test_json_scenarios stops at its first failing JSON case, which is about header names; that is normal.)
   - JavaScript: cd <copy>/test && node test_csv_utils.js && node test_rbql.js . On the unmodified tree test_rbql.js aborts early with an 'Unexpected identifier' message mismatch caused by the Node version; to see the rest, in your COPY change the line `test_common.assert_equal(expected_error, e.message);` in test_rbql.js to compare against `e.message.replace(/Unexpected identifier '[^']*'/, 'Unexpected identifier')`; then it should print 'Finished JS unit tests' both before and after your change.
3. A demonstration: a small self-contained program `demo.py` (or `demo.js` for a JavaScript change) that takes the path of a tree as its first argument (it must import rbql from <tree>/rbql-py by putting that directory first on sys.path, or require <tree>/rbql-js/... for JS), exercises the property through the public API, exits 0 and prints PASS when the property holds, exits 1 and prints FAIL with a short explanation when it is violated. It must print PASS on the unmodified repository at HEAD (use `git -C {wt} stash` / `stash pop`, or a second copy made with `git -C {wt} worktree`-independent means such as `git -C {wt} archive HEAD | tar -x -C <dir>`, to check) and FAIL on your modified worktree.
4. Put these files in {wt}/_seed/ : patch.diff (output of `git -C {wt} diff` restricted to the source change, NOT including _seed/), demo.py or demo.js, and notes.md saying: which clause of the property breaks, what exactly is needed for the bug to manifest (which input / interleaving / fault point / sequence), why the existing tests do not catch it, and the exact commands you ran with their results (tests before/after, demo before/after).

Constraints: no network; python is /venv/bin/python (3.12, pandas available), node is v20. Clean up any scratch copies you create under /tmp other than your worktree. Keep the change realistic - the kind of thing that could slip through code review.

When you are done, reply with a short summary: the files changed, the idea of the bug, what it needs to manifest, and the test/demo results you observed.""")
