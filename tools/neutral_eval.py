#!/venv/bin/python
# Evaluate a behaviour-preserving change written by a sub-agent: every quick check must stay quiet on it.
#   tools/neutral_eval.py <worktree> <id> [--checks C02,C12,...]
import argparse, json, os, re, shutil, subprocess, sys, time
VERIF = os.path.dirname(os.path.dirname(os.path.abspath(__file__)))
def sh(cmd, **kw):
    return subprocess.run(cmd, shell=isinstance(cmd, str), capture_output=True, text=True, **kw)
ap = argparse.ArgumentParser()
ap.add_argument('wt'); ap.add_argument('id'); ap.add_argument('--checks', default='C02,C06,C12,C15,C16,C20')
a = ap.parse_args()
mod = '/tmp/nv-mod-%s' % a.id
sh('git -C /repo worktree remove --force %s' % mod); shutil.rmtree(mod, ignore_errors=True)
assert sh('git -C /repo worktree add -q --detach %s HEAD' % mod).returncode == 0
try:
    diff = sh("git -C %s diff -- . ':(exclude)_neutral'" % a.wt).stdout
    open('/tmp/nv-%s.diff' % a.id, 'w').write(diff)
    r = sh('git -C %s apply /tmp/nv-%s.diff' % (mod, a.id))
    if r.returncode != 0:
        print('PATCH DOES NOT APPLY', r.stderr); sys.exit(2)
    meta = {'id': a.id, 'files_changed': sorted(set(re.findall(r'^\+\+\+ b/(.*)$', diff, re.M))), 'lines': [diff.count('\n+') , diff.count('\n-')], 'checks': {}}
    bad = 0
    for pid in a.checks.split(','):
        env = dict(os.environ); env['RBQL_REPO'] = mod
        t0 = time.time()
        c = sh(['/venv/bin/python', os.path.join(VERIF, 'bin', 'check'), pid, '--no-evidence'], env=env, timeout=3600)
        sigs = sorted(set(l.split('signature=')[1].split()[0] for l in c.stdout.splitlines() if 'signature=' in l))
        meta['checks'][pid] = {'rc': c.returncode, 'signatures': sigs, 'wall_s': round(time.time() - t0, 1)}
        print('%s rc=%d %s' % (pid, c.returncode, ' '.join(sigs)))
        if c.returncode != 0:
            bad += 1
            print(c.stdout[-1500:][:1500])
            for f in re.findall(r'replay=(\S+)', c.stdout):
                dst = '/tmp/nv-replay-%s-%s' % (a.id, os.path.basename(f))
                if os.path.exists(f): shutil.copy(f, dst); print('  replay kept at', dst)
        shutil.rmtree(os.path.join(VERIF, 'replays', pid), ignore_errors=True)
    out = os.path.join(VERIF, 'neutral', a.id); os.makedirs(out, exist_ok=True)
    open(os.path.join(out, 'patch.diff'), 'w').write(diff)
    n = os.path.join(a.wt, '_neutral', 'notes.md')
    if os.path.exists(n): shutil.copy(n, os.path.join(out, 'notes.md'))
    json.dump(meta, open(os.path.join(out, 'meta.json'), 'w'), indent=1)
    print('saved to', out, 'alarms:', bad)
    sys.exit(1 if bad else 0)
finally:
    sh('git -C /repo worktree remove --force %s' % mod); shutil.rmtree(mod, ignore_errors=True); sh('git -C /repo worktree prune')
