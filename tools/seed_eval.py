#!/venv/bin/python
# Evaluate one seeded change produced by a sub-agent and file it under /verif/seeded/<id>/.
#   tools/seed_eval.py <seed_worktree> <PROPERTY> <id> [--runs N] [--tier quick|thorough] [--no-save]
# Steps (all in scratch worktrees of /repo under /tmp, removed afterwards):
#   1. the patch applies to /repo HEAD;  2. demo prints PASS on HEAD and FAIL with the patch;
#   3. the repository's own tests give the same failing set with the patch (tools/tree_tests.sh);
#   4. the property's check is run against the patched tree (RBQL_REPO) and must exit 1.
import argparse
import json
import os
import re
import shutil
import subprocess
import sys
import time

VERIF = os.path.dirname(os.path.dirname(os.path.abspath(__file__)))


def sh(cmd, **kw):
    return subprocess.run(cmd, shell=isinstance(cmd, str), capture_output=True, text=True, **kw)


def norm_tests(out):
    lines = []
    for l in out.splitlines():
        l = re.sub(r'in [0-9.]+s', '', l).strip()
        if 'JSONCASE-FAIL' in l and any(x in l for x in ('dict fields', 'named fields', 'join with whitespace in join var')):
            continue   # header-name cases (ast.Index breakage): several of them flip between runs on the same tree
        lines.append(l)
    return lines


def main():
    ap = argparse.ArgumentParser()
    ap.add_argument('seed_dir')
    ap.add_argument('prop')
    ap.add_argument('id')
    ap.add_argument('--runs', type=int)
    ap.add_argument('--tier', default='quick')
    ap.add_argument('--no-save', action='store_true')
    ap.add_argument('--skip-tests', action='store_true')
    args = ap.parse_args()
    sd = os.path.join(args.seed_dir, '_seed')
    patch = os.path.join(sd, 'patch.diff')
    demo = os.path.join(sd, 'demo.py') if os.path.exists(os.path.join(sd, 'demo.py')) else os.path.join(sd, 'demo.js')
    meta = {'property': args.prop, 'id': args.id, 'ran': []}
    head = '/tmp/ev-head-%s' % args.id
    mod = '/tmp/ev-mod-%s' % args.id
    for d in (head, mod):
        sh('git -C /repo worktree remove --force %s' % d)
        shutil.rmtree(d, ignore_errors=True)
    try:
        assert sh('git -C /repo worktree add -q --detach %s HEAD' % head).returncode == 0
        assert sh('git -C /repo worktree add -q --detach %s HEAD' % mod).returncode == 0
        # regenerate the patch from the seed worktree itself (source files only) so that it is exact
        diff = sh("git -C %s diff -- . ':(exclude)_seed'" % args.seed_dir).stdout
        if not diff.strip():
            diff = open(patch).read()
        tmp_patch = '/tmp/ev-%s.diff' % args.id
        open(tmp_patch, 'w').write(diff)
        r = sh('git -C %s apply %s' % (mod, tmp_patch))
        meta['patch_applies'] = r.returncode == 0
        if r.returncode != 0:
            print('PATCH DOES NOT APPLY', r.stderr)
            return 2
        meta['files_changed'] = sorted(set(re.findall(r'^\+\+\+ b/(.*)$', diff, re.M)))
        runner = ['/venv/bin/python'] if demo.endswith('.py') else ['node']
        d1 = sh(runner + [demo, head], timeout=600)
        d2 = sh(runner + [demo, mod], timeout=600)
        meta['demo'] = {'on_head': [d1.returncode, (d1.stdout + d1.stderr)[-300:]], 'with_patch': [d2.returncode, (d2.stdout + d2.stderr)[-600:]]}
        meta['ran'].append('%s %s <HEAD worktree> -> rc %d; <patched worktree> -> rc %d' % (' '.join(runner), os.path.basename(demo), d1.returncode, d2.returncode))
        demo_ok = d1.returncode == 0 and d2.returncode != 0
        print('demo: HEAD rc=%d, patched rc=%d -> %s' % (d1.returncode, d2.returncode, 'ok' if demo_ok else 'NOT CONFIRMED'))
        tests_same = None
        if not args.skip_tests:
            t1 = norm_tests(sh([os.path.join(VERIF, 'tools', 'tree_tests.sh'), head], timeout=1800).stdout)
            t2 = norm_tests(sh([os.path.join(VERIF, 'tools', 'tree_tests.sh'), mod], timeout=1800).stdout)
            tests_same = t1 == t2
            meta['tests'] = {'same_as_head': tests_same, 'diff': [l for l in t2 if l not in t1] + ['(missing) ' + l for l in t1 if l not in t2]}
            meta['ran'].append('tools/tree_tests.sh on both worktrees: failing sets %s' % ('identical' if tests_same else 'DIFFER'))
            print('repo tests against tree: %s' % ('same as HEAD' if tests_same else 'DIFFER: %r' % meta['tests']['diff']))
        env = dict(os.environ)
        env['RBQL_REPO'] = mod
        cmd = ['/venv/bin/python', os.path.join(VERIF, 'bin', 'check'), args.prop, '--tier', args.tier, '--no-evidence']
        if args.runs:
            cmd += ['--runs', str(args.runs)]
        t0 = time.time()
        c = sh(cmd, env=env, timeout=3600)
        caught = c.returncode == 1 and 'VIOLATION property=%s' % args.prop in c.stdout
        sigs = sorted(set(l.split('signature=')[1].split()[0] for l in c.stdout.splitlines() if 'signature=' in l))
        first_run = [int(x) for x in re.findall(r'run=(\d+) seed=', c.stdout)]
        meta['check'] = {'cmd': ' '.join(cmd[1:]).replace(VERIF + '/', ''), 'rc': c.returncode, 'caught': caught, 'signatures': sigs,
                         'first_violating_run': min(first_run) if first_run else None, 'wall_s': round(time.time() - t0, 1), 'tail': c.stdout[-700:]}
        meta['ran'].append('RBQL_REPO=<patched worktree> %s -> rc %d' % (meta['check']['cmd'], c.returncode))
        print('check %s: rc=%d caught=%s %s' % (args.prop, c.returncode, caught, ' '.join(sigs)))
        if c.returncode == 2:
            print(c.stdout[-1500:], c.stderr[-1500:])
        # replays written against a patched tree are not findings on the tree
        shutil.rmtree(os.path.join(VERIF, 'replays', args.prop), ignore_errors=True)
        if not args.no_save and demo_ok and (tests_same is not False):
            out = os.path.join(VERIF, 'seeded', args.id)
            os.makedirs(out, exist_ok=True)
            open(os.path.join(out, 'patch.diff'), 'w').write(diff)
            shutil.copy(demo, os.path.join(out, os.path.basename(demo)))
            notes = os.path.join(sd, 'notes.md')
            if os.path.exists(notes):
                shutil.copy(notes, os.path.join(out, 'notes.md'))
            mpath = os.path.join(out, 'meta.json')
            old = json.load(open(mpath)) if os.path.exists(mpath) else {}
            old.update(meta)
            json.dump(old, open(mpath, 'w'), indent=1)
            print('saved to', out)
        return 0 if caught else 1
    finally:
        for d in (head, mod):
            sh('git -C /repo worktree remove --force %s' % d)
            shutil.rmtree(d, ignore_errors=True)
        sh('git -C /repo worktree prune')


if __name__ == '__main__':
    sys.exit(main())
