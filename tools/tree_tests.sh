#!/bin/sh
# Runs the repository's own tests against a tree (default /repo) in a scratch copy, so that the
# tree's code (not site-packages rbql) is what is imported and nothing is written into the tree.
# usage: tree_tests.sh [repo_dir] [--no-js]   prints one summary line per suite.
SRC=${1:-/repo}
NOJS=$2
TMP=$(mktemp -d /tmp/rbql-treetest-XXXXXX)
mkdir "$TMP/RBQL"
( cd "$SRC" && tar --exclude=.git -cf - . ) | ( cd "$TMP/RBQL" && tar xf - )
cd "$TMP/RBQL"
export PYTHONPATH="./rbql-py"
export PYTHONDONTWRITEBYTECODE=1
export PYTHONHASHSEED=0
/venv/bin/python test/test_csv_utils.py --create_big_csv_table speed_test.csv >/dev/null 2>&1
# The JSON-driven suites stop at their first failing case (two cases fail on the unchanged tree under Python 3.12:
# ast.Index is gone). In this scratch copy only, let them run every case and print the names of the failing ones.
/venv/bin/python - <<'PY'
import re
for path, call in (('test/test_csv_utils.py', 'self.process_test_case(tmp_tests_dir, test)'), ('test/test_rbql.py', 'self.process_test_case(test)'), ('test/test_rbql_pandas.py', 'self.process_test_case(test)')):
    s = open(path).read()
    pat = re.compile(r'^( +)' + re.escape(call) + r'$', re.M)
    def rep(m):
        i = m.group(1)
        return (i + 'try:\n' + i + '    ' + call + '\n' + i + 'except Exception as _e:\n' + i + "    print('JSONCASE-FAIL', '" + path + "', test.get('test_name'), type(_e).__name__)")
    s2, n = pat.subn(rep, s)
    open(path, 'w').write(s2)
PY
for m in test.test_csv_utils test.test_rbql test.test_rbql_sqlite test.test_rbql_pandas test.test_mad_max; do
  out=$(timeout 600 /venv/bin/python -W ignore -m unittest $m 2>&1)
  rc=$?
  echo "PY $m rc=$rc $(echo "$out" | grep -E '^(Ran|OK|FAILED)' | tr '\n' ' ')"
  echo "$out" | grep -E '^(ERROR|FAIL):' | sort | sed 's/^/   /'
  echo "$out" | grep -E '^JSONCASE-FAIL' | sort | sed 's/^/   /'
done
if [ "$NOJS" != "--no-js" ]; then
  /venv/bin/python test/test_csv_utils.py --create_random_csv_table random_tmp_table.txt >/dev/null 2>&1
  cd test
  out=$(timeout 600 node test_csv_utils.js --run-random-csv-mode ../random_tmp_table.txt 2>&1); echo "JS test_csv_utils.js(random) rc=$? $(echo "$out" | tail -1)"
  out=$(timeout 600 node test_rbql.js 2>&1); echo "JS test_rbql.js rc=$? $(echo "$out" | tail -1)"
  # Node 20 words one SyntaxError differently ("Unexpected identifier 'and'"), which aborts the suite at its first
  # JSON case on the unchanged tree; run it again with that message normalised (scratch copy only) to see the rest.
  sed -i "s/test_common.assert_equal(expected_error, e.message);/test_common.assert_equal(expected_error, e.message.replace(\/Unexpected identifier '[^']*'\/, 'Unexpected identifier'));/" test_rbql.js
  out=$(timeout 600 node test_rbql.js 2>&1); echo "JS test_rbql.js(normalised) rc=$? $(echo "$out" | tail -2 | tr '\n' ' ')"
  out=$(timeout 600 node test_csv_utils.js 2>&1); echo "JS test_csv_utils.js rc=$? $(echo "$out" | tail -1)"
  cd ..
fi
cd /
rm -rf "$TMP"
