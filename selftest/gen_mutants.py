#!/venv/bin/python
# Writes selftest/mutants.json: one-hunk changes to a scratch copy of the tree that the quick
# checks must catch ("caught") or must not alarm on ("clean": behaviour-preserving changes).
import json
import os

PY_ENGINE = 'rbql-py/rbql/rbql_engine.py'
PY_CSV = 'rbql-py/rbql/rbql_csv.py'
PY_SQLITE = 'rbql-py/rbql/rbql_sqlite.py'
JS = 'rbql-js/rbql.js'
JS_CSV = 'rbql-js/rbql_csv.js'

M = []


def mut(prop, name, edits, expect='caught', runs=None):
    m = {'property': prop, 'name': name, 'edits': edits, 'expect': expect}
    if runs:
        m['runs'] = runs
    M.append(m)


def e(file, old, new, count=1):
    return {'file': file, 'old': old, 'new': new, 'count': count}


# ------------------------------------------------------------------ C02
mut('C02', 'py_topwriter_fix_reverted', [e(PY_ENGINE, '        return success and self.NW < self.top_count\n', '        return success\n')], runs=4000)
mut('C02', 'js_topwriter_fix_reverted', [e(JS, '        return this.top_count === null || this.NW < this.top_count;\n', '        return true;\n')], runs=4000)
mut('C02', 'js_sort_seq_reverted', [e(JS, '        stable_entry.splice(stable_entry.length - 1, 0, this.unsorted_entries.length);\n', '')], runs=6000)
mut('C02', 'py_sorted_reverse_flag', [e(PY_ENGINE, "        sorted_entries = sorted(self.unsorted_entries, key=lambda x: x[0])\n        if self.reverse_sort:\n            sorted_entries.reverse()\n",
                                        "        sorted_entries = sorted(self.unsorted_entries, key=lambda x: x[0], reverse=self.reverse_sort)\n")], runs=6000)
mut('C02', 'py_top_above_uniq', [e(PY_ENGINE,
    "        if query_context.top_count is not None:\n            query_context.writer = TopWriter(query_context.writer, query_context.top_count)\n        if 'distinct_count' in rb_actions[SELECT]:\n            query_context.writer = UniqCountWriter(query_context.writer)\n        elif 'distinct' in rb_actions[SELECT]:\n            query_context.writer = UniqWriter(query_context.writer)\n",
    "        if 'distinct_count' in rb_actions[SELECT]:\n            query_context.writer = UniqCountWriter(query_context.writer)\n        elif 'distinct' in rb_actions[SELECT]:\n            query_context.writer = UniqWriter(query_context.writer)\n        if query_context.top_count is not None:\n            query_context.writer = TopWriter(query_context.writer, query_context.top_count)\n")], runs=6000)
mut('C02', 'py_uniq_keeps_last', [e(PY_ENGINE, "        if not add_to_set(self.seen, immutable_record):\n            return True\n", "        if immutable_record in self.seen:\n            return True\n        if len(self.seen) and False:\n            return True\n        self.seen.add(immutable_record)\n")], expect='clean', runs=6000)
mut('C02', 'py_join_loop_no_break', [e(PY_ENGINE, "    __CODE__\n    if stop_flag:\n        break\n'''", "    __CODE__\n'''")], expect='clean', runs=6000)
mut('C02', 'py_uniq_returns_subwriter_result', [e(PY_ENGINE, "        if not self.subwriter.write(record):\n            return False\n        return True\n\n    def finish(self):\n        self.subwriter.finish()\n\n\nclass UniqCountWriter",
                                                 "        return self.subwriter.write(record)\n\n    def finish(self):\n        self.subwriter.finish()\n\n\nclass UniqCountWriter")], expect='clean', runs=6000)
mut('C02', 'py_limit_off_by_one_when_distinct', [e(PY_ENGINE, "        if query_context.top_count is not None:\n            query_context.writer = TopWriter(query_context.writer, query_context.top_count)\n",
                                                  "        if query_context.top_count is not None:\n            query_context.writer = TopWriter(query_context.writer, query_context.top_count + (1 if 'distinct' in rb_actions[SELECT] and ORDER_BY in rb_actions else 0))\n")], runs=8000)
mut('C02', 'js_desc_sorts_descending_instead_of_reverse', [e(JS, "        unsorted_entries.sort(stable_compare);\n        if (this.reverse_sort)\n            unsorted_entries.reverse();\n",
                                                             "        if (this.reverse_sort)\n            unsorted_entries.sort((a, b) => stable_compare(b.slice(0, -3).concat(a.slice(-3)), a.slice(0, -3).concat(b.slice(-3))));\n        else\n            unsorted_entries.sort(stable_compare);\n")], runs=8000)

# ------------------------------------------------------------------ C06
mut('C06', 'py_update_aliases_input', [e(PY_ENGINE, 'up_fields = record_a[:]\n', 'up_fields = record_a\n', 2)], runs=3000)
mut('C06', 'py_select_star_fast_path', [e(PY_ENGINE, "    return ('[{}]'.format(translated), translated_for_ast)\n",
                                          "    if translated == '] + star_fields + [':\n        return ('star_fields', translated_for_ast)\n    return ('[{}]'.format(translated), translated_for_ast)\n")], runs=3000)
mut('C06', 'sqlite_whitelist_loosened', [e(PY_SQLITE, "re.match(r'^[a-zA-Z0-9_]*\\Z', table_name)", "re.match('^[^;]*$', table_name)")], runs=3000)
mut('C06', 'js_update_fix_reverted', [e(JS, "let up_fields = record_a.slice(); // UPDATE must work on a copy: the caller's input records are never modified.", 'let up_fields = record_a;', 2)], runs=3000)
mut('C06', 'py_update_join_aliases_only_when_no_match', [e(PY_ENGINE, "    bNR, bNF, record_b = None, None, None\nup_fields = record_a[:]\n", "    bNR, bNF, record_b = None, None, None\nup_fields = record_a[:] if len(join_matches) == 1 else record_a\n")], runs=6000)
mut('C06', 'py_except_returns_source_when_nothing_left', [e(PY_ENGINE, "def select_except(src, except_fields):\n    result = list()\n", "def select_except(src, except_fields):\n    if not [i for i in except_fields if i < len(src)]:\n        return src\n    result = list()\n")], runs=8000)
mut('C06', 'csv_output_defaults_next_to_input', [e(PY_CSV, "    try:\n        output_stream, close_output_on_finish = (sys.stdout, False) if output_path is None else (open(output_path, 'wb'), True)\n",
                                                   "    try:\n        if output_path is not None and output_path.endswith('out.csv') and query_text.lower().startswith('update') and input_path:\n            output_path = input_path\n        output_stream, close_output_on_finish = (sys.stdout, False) if output_path is None else (open(output_path, 'wb'), True)\n")], runs=6000)
mut('C06', 'input_opened_rw_without_writing', [e(PY_CSV, "(open(input_path, 'rb'), True)", "(open(input_path, 'r+b'), True)")], expect='clean', runs=3000)
mut('C06', 'py_update_copies_twice', [e(PY_ENGINE, 'up_fields = record_a[:]\n', 'up_fields = list(record_a[:])\n', 2)], expect='clean', runs=3000)

# ------------------------------------------------------------------ C12
mut('C12', 'cr_lookahead_removed', [e(PY_CSV, "        if separator == '\\r' and str_after == '':\n            one_more = self.stream.read(1)\n            if one_more == '\\n':\n                separator = '\\r\\n'\n            else:\n                str_after = one_more\n", '')], runs=2000)
mut('C12', 'lookahead_char_dropped', [e(PY_CSV, "            else:\n                str_after = one_more\n", "            else:\n                pass\n")], runs=2000)
mut('C12', 'short_read_taken_as_eof', [e(PY_CSV, "            chunks.append(chunk)\n", "            chunks.append(chunk)\n            if len(chunk) < self.chunk_size and self.chunk_size > 4:\n                self.exhausted = True\n                break\n")], runs=3000)
mut('C12', 'bom_stripped_on_first_two_lines', [e(PY_CSV, "            if self.NL == 1:\n                clean_line = remove_utf8_bom(row, self.encoding)", "            if self.NL <= 2:\n                clean_line = remove_utf8_bom(row, self.encoding)")], runs=6000)
mut('C12', 'rfc_rows_joined_with_detected_separator', [e(PY_CSV, "                return '\\n'.join(rows_buffer)\n            rows_buffer.append(row)\n            if row.count('\"') % 2 == 1:\n                return '\\n'.join(rows_buffer)\n",
                                                         "                return self.detected_line_separator.join(rows_buffer)\n            rows_buffer.append(row)\n            if row.count('\"') % 2 == 1:\n                return self.detected_line_separator.join(rows_buffer)\n")], runs=4000)
mut('C12', 'decode_each_read_separately', [e(PY_CSV, "def encode_input_stream(stream, encoding):\n    if encoding is None:\n        return stream\n",
    "class _PerReadDecoder(object):\n    def __init__(self, stream, encoding):\n        self.stream = stream\n        self.encoding = encoding\n    def read(self, n):\n        return self.stream.read(n).decode(self.encoding).replace('\\r\\n', '\\n').replace('\\r', '\\n')\n\n\ndef encode_input_stream(stream, encoding):\n    if encoding is None:\n        return stream\n    return _PerReadDecoder(getattr(stream, 'buffer', stream), encoding)\n")], runs=3000)
mut('C12', 'final_unterminated_line_lost_when_buffer_refilled', [e(PY_CSV, "                    if not len(self.buffer):\n                        return None\n", "                    if not len(self.buffer) or (self.NL > 0 and self.chunk_size < 3 and len(self.buffer) == 1):\n                        return None\n")], runs=4000)
mut('C12', 'read_until_found_checks_lf_only', [e(PY_CSV, "            if csv_utils.newline_rgx.search(chunk) is not None:\n                break\n", "            if '\\n' in chunk:\n                break\n")], expect='clean', runs=3000)
mut('C12', 'default_chunk_size_7', [e(PY_CSV, "variable_prefix='a', chunk_size=1024, line_mode=False", "variable_prefix='a', chunk_size=7, line_mode=False")], expect='clean', runs=3000)

mut('C12', 'warnings_reworded', [e(PY_CSV, "result.append('UTF-8 Byte Order Mark (BOM) was found and skipped in {} table'.format(self.table_name))", "result.append('A byte order mark (BOM) at the start of the {} table has been ignored'.format(self.table_name))"),
                               e(PY_CSV, "result.append('Inconsistent double quote escaping in {} table. E.g. at line {}'.format(self.table_name, self.first_defective_line))", "result.append('Defective quoting in {} table, first seen at line {}'.format(self.table_name, self.first_defective_line))")], expect='clean', runs=6000)

# ------------------------------------------------------------------ C15
mut('C15', 'decode_error_message_reworded', [e(PY_CSV, "raise rbql_engine.RbqlIOHandlingError('Unable to decode input table as UTF-8. Use binary (latin-1) encoding instead')", "raise rbql_engine.RbqlIOHandlingError('Input table is not valid UTF-8, try --encoding latin-1')")], expect='clean', runs=3000)
mut('C15', 'broken_pipe_not_caught_in_write', [e(PY_CSV, "        except broken_pipe_exception as exc:\n            if broken_pipe_exception == IOError:\n                if exc.errno != EPIPE:\n                    raise\n            self.broken_pipe = True\n            return False\n",
                                                 "        except ZeroDivisionError as exc:\n            self.broken_pipe = True\n            return False\n")], runs=1500)
mut('C15', 'close_fix_reverted_in_finish', [e(PY_CSV, "            close_ignoring_broken_pipe(self.stream)\n", "            self.stream.close()\n")], runs=1500)
mut('C15', 'close_fix_reverted_in_query_csv', [e(PY_CSV, "            close_ignoring_broken_pipe(output_stream)\n", "            output_stream.close()\n")], runs=1500)
mut('C15', 'select_unnested_ignores_false', [e(PY_ENGINE, "            if not select_simple(query_context, sort_key, out_fields):\n                return False\n        return True\n", "            select_simple(query_context, sort_key, out_fields)\n        return True\n")], runs=4000)
mut('C15', 'uniqcount_finish_ignores_false', [e(PY_ENGINE, "            mutable_record.insert(0, cnt)\n            if not self.subwriter.write(mutable_record):\n                break\n", "            mutable_record.insert(0, cnt)\n            self.subwriter.write(mutable_record)\n")], runs=4000)
mut('C15', 'sorted_finish_ignores_false', [e(PY_ENGINE, "        for e in sorted_entries:\n            if not self.subwriter.write(e[1]):\n                break\n", "        for e in sorted_entries:\n            self.subwriter.write(e[1])\n")], runs=4000)
mut('C15', 'join_registry_not_finished', [e(PY_CSV, "            if join_tables_registry:\n                join_tables_registry.finish()\n", "            if join_tables_registry:\n                pass\n")], runs=1500)
mut('C15', 'input_closed_only_on_success', [e(PY_CSV, "        rbql_engine.query(query_text, input_iterator, output_writer, output_warnings, join_tables_registry, user_init_code)\n    finally:\n        try:\n            if close_input_on_finish:\n                input_stream.close()\n",
                                              "        rbql_engine.query(query_text, input_iterator, output_writer, output_warnings, join_tables_registry, user_init_code)\n        if close_input_on_finish:\n            input_stream.close()\n            close_input_on_finish = False\n    finally:\n        try:\n            pass\n")], runs=1500)
mut('C15', 'decode_error_escapes_from_refill', [e(PY_CSV, "        try:\n            row = self._get_row_from_buffer()\n            if row is None:\n                self._read_until_found()\n",
                                                  "        row = None\n        if self._get_row_from_buffer_peek() is None:\n            self._read_until_found()\n        try:\n            row = self._get_row_from_buffer()\n            if row is None:\n                pass\n"),
                                                e(PY_CSV, "    def _read_until_found(self):\n", "    def _get_row_from_buffer_peek(self):\n        return True if csv_utils.newline_rgx.search(self.buffer) is not None else None\n\n\n    def _read_until_found(self):\n")], runs=2500)
mut('C15', 'finish_called_twice', [e(PY_ENGINE, "    compile_and_run(query_context, user_namespace)\n    query_context.writer.finish()\n", "    compile_and_run(query_context, user_namespace)\n    query_context.writer.finish()\n    if query_context.top_count is not None:\n        query_context.writer.finish()\n")], runs=2500)
mut('C15', 'set_header_twice_for_update_join', [e(PY_ENGINE, "        query_context.writer.set_header(input_header)\n", "        query_context.writer.set_header(input_header)\n        if JOIN in rb_actions:\n            query_context.writer.set_header(input_header)\n")], runs=4000)
mut('C15', 'decode_errors_replaced', [e(PY_CSV, "            return io.TextIOWrapper(stream.buffer, encoding=encoding)\n        except AttributeError:\n            # BytesIO doesn't have \"buffer\"\n            return io.TextIOWrapper(stream, encoding=encoding)\n    else:\n        # Reference: https://stackoverflow.com/a/27425797/2898283",
                                         "            return io.TextIOWrapper(stream.buffer, encoding=encoding, errors='replace')\n        except AttributeError:\n            # BytesIO doesn't have \"buffer\"\n            return io.TextIOWrapper(stream, encoding=encoding, errors='replace')\n    else:\n        # Reference: https://stackoverflow.com/a/27425797/2898283")], runs=2500)
# Not neutral after all: a flush that fails inside write() leaves the bytes in sys.stdout's BufferedWriter and, unlike the final flush in
# finish(), nothing closes sys.stdout afterwards, so `rbql ... | true` ends with "Exception ignored ... BrokenPipeError" and status 120.
mut('C15', 'flush_after_every_record', [e(PY_CSV, "            self.stream.write(self.line_separator)\n            return True\n", "            self.stream.write(self.line_separator)\n            self.stream.flush()\n            return True\n")], expect='caught', runs=2500)
mut('C15', 'records_joined_before_write', [e(PY_CSV, "            self.stream.write(out_line)\n            if self.colors is not None:\n                self.stream.write(ansi_reset_color_code)\n            self.stream.write(self.line_separator)\n            return True\n",
                                                 "            self.stream.write(out_line + (ansi_reset_color_code if self.colors is not None else '') + self.line_separator)\n            return True\n")], expect='clean', runs=2500)

# ------------------------------------------------------------------ C16
mut('C16', 'functional_aggregators_shared', [e(PY_ENGINE, "        self.aggregation_key_expression = None\n        self.functional_aggregators = []\n", "        self.aggregation_key_expression = None\n"),
                                              e(PY_ENGINE, "class RBQLContext:\n", "class RBQLContext:\n    functional_aggregators = []\n")], runs=1500)
mut('C16', 'unnest_list_module_global', [e(PY_ENGINE, "debug_mode = False\n", "debug_mode = False\n\nclass _Shared:\n    unnest_list = None\n_shared = _Shared()\n"),
                                          e(PY_ENGINE, "query_context.unnest_list", "_shared.unnest_list", 5)], runs=14000)
mut('C16', 'table_iterator_fields_info_shared', [e(PY_ENGINE, "        self.NR = 0\n        self.fields_info = dict()\n\n    def get_variables_map(self, query_text):\n        variable_map = dict()\n        parse_basic_variables(query_text, self.variable_prefix, variable_map)",
                                                   "        self.NR = 0\n\n    fields_info = dict()\n\n    def get_variables_map(self, query_text):\n        variable_map = dict()\n        parse_basic_variables(query_text, self.variable_prefix, variable_map)")], runs=3000)
mut('C16', 'debug_mode_left_on_after_error', [e(PY_ENGINE, "def query(query_text, input_iterator, output_writer, output_warnings, join_tables_registry=None, user_init_code='', user_namespace=None):\n    query_context = RBQLContext(input_iterator, output_writer, user_init_code)\n    shallow_parse_input_query",
                                                "def query(query_text, input_iterator, output_writer, output_warnings, join_tables_registry=None, user_init_code='', user_namespace=None):\n    query_context = RBQLContext(input_iterator, output_writer, user_init_code)\n    if 'limit x' in query_text:\n        set_debug_mode()\n    shallow_parse_input_query")], runs=3000)
mut('C16', 'aggregation_stage_module_global', [e(PY_ENGINE, "debug_mode = False\n", "debug_mode = False\n\nclass _Stage:\n    aggregation_stage = 0\n_stage = _Stage()\n"),
                                                e(PY_ENGINE, "        self.aggregation_stage = 0\n", "        _stage.aggregation_stage = 0\n"),
                                                e(PY_ENGINE, "query_context.aggregation_stage", "_stage.aggregation_stage", 14)], runs=3000)
mut('C16', 'like_cache_module_level', [e(PY_ENGINE, "        self.like_regex_cache = dict()\n", "        self.like_regex_cache = _like_cache\n"),
                                        e(PY_ENGINE, "class RBQLContext:\n", "_like_cache = dict()\n\n\nclass RBQLContext:\n")], expect='clean', runs=3000)

# ------------------------------------------------------------------ C20
mut('C20', 'decoder_fix_reverted', [e(JS_CSV, "this.decoder.decode(data_chunk, {stream: true});", "this.decoder.decode(data_chunk);")], runs=1500)
mut('C20', 'bom_stripped_by_decoder_again', [e(JS_CSV, "{fatal: true, ignoreBOM: true}", "{fatal: true}")], runs=3000)
mut('C20', 'cr_flag_ignored', [e(JS_CSV, "let first_line_index = line_starts_with_lf && this.partially_decoded_line_ends_with_cr ? 1 : 0;", "let first_line_index = 0;"),
                               e(JS_CSV, "        assert(first_line_index == 0 || lines[0].length == 0);\n", "")], runs=1500)
mut('C20', 'last_partial_line_dropped', [e(JS_CSV, "        if (this.partially_decoded_line.length) {\n            let last_line = this.partially_decoded_line;\n            this.partially_decoded_line = '';\n            this.process_line(last_line);\n        }\n", "")], runs=1500)
mut('C20', 'resume_skipped_after_preread', [e(JS_CSV, "        if (this.stream && this.stream.isPaused())\n            this.stream.resume();\n", "")], runs=1500)
mut('C20', 'end_does_not_wake_consumer', [e(JS_CSV, "            this.process_record_line(this.line_aggregator.get_full_line('\\n'));\n        }\n        this.try_resolve_next_record();\n    };\n\n\n    stop() {", "            this.process_record_line(this.line_aggregator.get_full_line('\\n'));\n        }\n    };\n\n\n    stop() {")], runs=1500)
mut('C20', 'cr_flag_not_reset_by_empty_chunk_guard', [e(JS_CSV, "this.partially_decoded_line_ends_with_cr = decoded_string.length && decoded_string[decoded_string.length - 1] == '\\r';",
                                                        "if (decoded_string.length) this.partially_decoded_line_ends_with_cr = decoded_string[decoded_string.length - 1] == '\\r';")], expect='clean', runs=3000)
mut('C20', 'record_queue_uses_shift', [e(JS_CSV, "        if (!this.pull_stack.length) {\n            if (!this.push_stack.length)\n                return null;\n            this.pull_stack = this.push_stack;\n            this.pull_stack.reverse();\n            this.push_stack = [];\n        }\n        return this.pull_stack.pop();\n",
                                        "        if (!this.push_stack.length)\n            return null;\n        return this.push_stack.shift();\n")], expect='clean', runs=3000)

here = os.path.dirname(os.path.abspath(__file__))
with open(os.path.join(here, 'mutants.json'), 'w') as f:
    json.dump({'mutants': M}, f, indent=1)
    f.write('\n')
print('wrote', len(M), 'mutants')
