// Node side of the simulator. Started once per worker: node driver.js <repo>/rbql-js
// Reads one JSON request per line on stdin, answers one JSON line on stdout. Requests run
// strictly one after another; within a request the only asynchrony is what the request's plan
// prescribes (sync push / nextTick / resolved promise / setImmediate). No timers, no PRNG.
'use strict';

const path = require('path');
const fs = require('fs');
const crypto = require('crypto');
const os = require('os');
const stream = require('stream');
const readline = require('readline');

const repo_js = process.argv[2];
const rbql = require(path.join(repo_js, 'rbql.js'));
const rbql_csv = require(path.join(repo_js, 'rbql_csv.js'));

let unhandled = [];
let planned_streams = [];
let paused_probe = null;
let dirty = false;
let uncaught = [];
// an exception thrown out of one of the reader's stream event handlers would end a real program; here it is recorded against
// the request in progress and the driver is restarted afterwards
process.on('uncaughtException', (e) => { uncaught.push([(e && e.constructor && e.constructor.name) || 'Error', String(e && e.message).substring(0, 200)]); dirty = true; });
process.on('unhandledRejection', (reason) => { unhandled.push(String(reason && reason.message || reason).substring(0, 200)); });

class SimCap extends Error {}
class SimStall extends Error {}


function endless_record(spec, i) {
    // must stay identical to rbqlsim/props/c02.py: endless_record()
    let c2 = ['v1', 'v2', 'x', 'v1', 'v10', 'v2'];
    let c3 = ['p;q', 'r', '', 's;t;u', 'p;q', 'r;r'];
    let a1 = String((i * spec.k1) % spec.p1);
    let a2 = (spec.sparse_after === null || i <= spec.sparse_after) ? c2[i % spec.p2] : 'zz';
    let a3 = c3[i % spec.p3];
    if (spec.sparse_after !== null && i > spec.sparse_after) {
        a1 = 'zz';
        a3 = 'zz';
    }
    return [a1, a2, a3];
}


class SimIterator extends rbql.RBQLInputIterator {
    constructor(producer, header, prefix, trace, max_pulls) {
        super();
        this.producer = producer;
        this.header = header || null;
        this.prefix = prefix;
        this.trace = trace;
        this.max_pulls = max_pulls;
        this.nr = 0;
        this.fields_info = new Map();
        this.helper = new rbql.TableIterator(producer.type == 'finite' ? producer.rows : [], this.header, true, prefix);
    }
    stop() {}
    async get_variables_map(query_text) {
        return await this.helper.get_variables_map(query_text);
    }
    async get_header() {
        return this.header;
    }
    async get_record() {
        if (this.prefix == 'a') {
            this.trace.pulls += 1;
            if (this.max_pulls !== null && this.trace.pulls > this.max_pulls)
                throw new SimCap('cap');
        }
        let p = this.producer;
        let record = null;
        if (p.type == 'finite') {
            if (this.nr >= p.rows.length)
                return null;
            record = p.rows[this.nr];
        } else if (p.type == 'stall') {
            if (this.nr >= p.rows.length)
                throw new SimStall('stall');
            record = p.rows[this.nr];
        } else {
            record = endless_record(p, this.nr + 1);
        }
        this.nr += 1;
        if (!this.fields_info.has(record.length))
            this.fields_info.set(record.length, this.nr);
        return record;
    }
    get_warnings() {
        if (this.fields_info.size > 1) {
            let [r1, n1, r2, n2] = rbql_sample(this.fields_info);
            return [`Number of fields in "input" table is not consistent: e.g. record ${r1} -> ${n1} fields, record ${r2} -> ${n2} fields`];
        }
        return [];
    }
}


function rbql_sample(info) {
    let entries = Array.from(info.entries());
    entries.sort(function(a, b) { return a[1] - b[1]; });
    return [entries[0][1], entries[0][0], entries[1][1], entries[1][0]];
}


class SimWriter extends rbql.RBQLOutputWriter {
    constructor(trace, refuse_at, latency, write_result) {
        super();
        this.write_result = write_result || null;
        this.latency = latency || null;
        this.nwrites = 0;
        this.trace = trace;
        this.rows = [];
        this.header = null;
        this.refuse_at = refuse_at;
        this.events = [];
    }
    async write(fields) {
        this.trace.pulls_at_write.push(this.trace.pulls);
        this.events.push('write');
        if (this.latency !== null) {
            // a writer doing real I/O: this write settles some event-loop turns later (the engine has to wait for it)
            let wait = this.latency[this.nwrites % this.latency.length];
            this.nwrites += 1;
            if (wait > 0)
                await turns(wait);
        }
        if (this.refuse_at !== null && this.refuse_at !== undefined && this.rows.length >= this.refuse_at)
            return false;
        this.rows.push(fields);
        // "go on" is any truthy value: a caller's writer may return what its own stream call returned
        if (this.write_result == 'count')
            return fields.length + 1;
        if (this.write_result == 'str')
            return 'ok';
        return true;
    }
    set_header(header) {
        this.events.push('set_header');
        this.header = header;
    }
    async finish() {
        this.events.push('finish');
    }
}


class SimRegistry extends rbql.RBQLTableRegistry {
    constructor(rows, header, trace) {
        super();
        this.rows = rows;
        this.header = header;
        this.trace = trace;
    }
    get_iterator_by_table_id(table_id) {
        if (table_id.toLowerCase() != 'b')
            return null;
        return new SimIterator({type: 'finite', rows: this.rows}, this.header, 'b', this.trace, null);
    }
}


function plain(x) {
    // JSON-able copy; keeps identity information out. Values JSON cannot carry (NaN, +-Infinity, -0, undefined, Date, bigint)
    // are tagged instead of being flattened to null / 0 / a string, so that the Python side compares what the engine emitted.
    if (x === undefined)
        return null;
    return plain_value(x, 0);
}


function plain_value(x, depth) {
    if (x === undefined)
        return {'$js': 'undefined'};
    if (x === null || typeof x == 'string' || typeof x == 'boolean')
        return x;
    if (typeof x == 'number') {
        if (Number.isNaN(x) || x === Infinity || x === -Infinity)
            return {'$js': String(x)};
        if (Object.is(x, -0))
            return {'$js': '-0'};
        return x;
    }
    if (typeof x == 'bigint')
        return {'$js': 'bigint', 'v': String(x)};
    if (typeof x == 'function' || typeof x == 'symbol')
        return {'$js': typeof x};
    if (depth > 20)
        return {'$js': 'deep'};
    if (x instanceof Date)
        return {'$js': 'Date', 'iso': Number.isNaN(x.getTime()) ? 'invalid' : x.toISOString()};
    if (Array.isArray(x)) {
        let out = [];
        for (let i = 0; i < x.length; i++)
            out.push(plain_value(x[i], depth + 1));
        return out;
    }
    let out = {};
    for (let k of Object.keys(x))
        out[k] = plain_value(x[k], depth + 1);
    return out;
}


async function run_query(req) {
    let trace = {pulls: 0, pulls_at_write: []};
    let out = {};
    let producer = req.producer;
    let rows_before = producer.type != 'endless' ? plain(producer.rows) : null;
    let join_before = req.join_rows ? plain(req.join_rows) : null;
    // own enumerable keys of every source row object (JSON snapshots do not see a property attached to an array)
    let own_keys = (rows) => rows ? JSON.stringify(rows.map(r => (r && typeof r == 'object') ? Object.keys(r) : null)) : null;
    let keys_before = [own_keys(producer.type != 'endless' ? producer.rows : null), own_keys(req.join_rows || null)];
    let headers_before = JSON.stringify([req.header || null, req.join_header || null]);
    let input_rows_ref = producer.type != 'endless' ? producer.rows.slice() : null;
    let join_rows_ref = req.join_rows ? req.join_rows.slice() : null;
    let it = new SimIterator(producer, req.header || null, 'a', trace, req.max_pulls === undefined ? null : req.max_pulls);
    let wr = new SimWriter(trace, req.refuse_at, req.write_latency, req.write_result);
    let reg = req.join_rows ? new SimRegistry(req.join_rows, req.join_header || null, trace) : null;
    let warnings = [];
    try {
        if (req.api == 'query_table') {
            let out_rows = [];
            let out_header = [];
            await rbql.query_table(req.query, producer.rows, out_rows, warnings, req.join_rows || null, req.header || null, req.join_header || null, out_header, true, req.init || '');
            wr.rows = out_rows;
            wr.header = out_header;
        } else {
            await rbql.query(req.query, it, wr, warnings, reg, req.init || '');
        }
        out.outcome = ['ok'];
    } catch (e) {
        if (e instanceof SimCap) {
            out.outcome = ['cap'];
        } else if (e instanceof SimStall) {
            out.outcome = ['stall'];
        } else {
            out.outcome = ['err', (e && e.constructor && e.constructor.name) || 'Error', String(e && e.message).substring(0, 300)];
        }
    }
    // aliasing / mutation observations (C06, C19 last clause)
    out.aliased = false;
    if (input_rows_ref) {
        for (let r of wr.rows) {
            if (input_rows_ref.indexOf(r) != -1 || (join_rows_ref && join_rows_ref.indexOf(r) != -1))
                out.aliased = true;
        }
    }
    out.rows = plain(wr.rows);
    if (req.mutate_output) {
        for (let r of wr.rows) {
            if (Array.isArray(r)) {
                for (let i = 0; i < r.length; i++)
                    r[i] = 'MUT';
                r.push('MUT');
            }
        }
    }
    out.header = plain(wr.header);
    out.warnings = warnings;
    out.pulls = trace.pulls;
    out.pulls_at_write = trace.pulls_at_write;
    out.writer_events = wr.events;
    if (rows_before !== null) {
        out.input_unchanged = JSON.stringify(rows_before) == JSON.stringify(plain(producer.rows)) && producer.rows.length == input_rows_ref.length && producer.rows.every((r, i) => r === input_rows_ref[i]);
        out.input_after = plain(producer.rows);
    }
    let keys_after = [own_keys(producer.type != 'endless' ? producer.rows : null), own_keys(req.join_rows || null)];
    out.row_keys_unchanged = keys_before[0] == keys_after[0] && keys_before[1] == keys_after[1];
    out.headers_unchanged = headers_before == JSON.stringify([req.header || null, req.join_header || null]);
    if (!out.headers_unchanged)
        out.headers_after = plain([req.header || null, req.join_header || null]);
    if (join_before !== null) {
        out.join_unchanged = JSON.stringify(join_before) == JSON.stringify(plain(req.join_rows)) && req.join_rows.every((r, i) => r === join_rows_ref[i]);
    }
    return out;
}


// ---------------------------------------------------------------------------------- stream reader (C20)

class PlannedReadable extends stream.Readable {
    // plan: [{hex, timing}] ; timing in sync | tick | micro | immediate
    constructor(plan, counters, options) {
        super(options || {});
        this.plan = plan;
        this.idx = 0;
        this.counters = counters;
        this.scheduled = false;
        this.eof_pushed = false;
        planned_streams.push(this);
    }
    _read() {
        this.counters.read_calls += 1;
        if (this.scheduled)
            return;
        this.step();
    }
    step() {
        if (this.idx > this.plan.length)
            return;
        if (this.idx == this.plan.length) {
            this.idx += 1;
            this.counters.eof_pushed_turn = this.counters.turn;
            this.eof_pushed = true;
            this.push(null);
            return;
        }
        let item = this.plan[this.idx];
        let deliver = () => {
            this.scheduled = false;
            this.idx += 1;
            this.counters.chunks_pushed += 1;
            let more = this.push(Buffer.from(item.hex, 'hex'));
            if (item.timing == 'sync' && more && this.idx <= this.plan.length) {
                // a synchronous producer may push several chunks from one _read
                if (this.idx < this.plan.length && this.plan[this.idx].timing == 'sync')
                    this.step();
            }
        };
        if (item.timing == 'sync') {
            deliver();
        } else {
            this.scheduled = true;
            if (item.timing == 'tick') process.nextTick(deliver);
            else if (item.timing == 'micro') Promise.resolve().then(deliver);
            else setImmediate(deliver);
        }
    }
}


function turns(n) {
    // n event-loop turns (setImmediate boundaries); 0 = continue in the same microtask chain
    return new Promise(function(resolve) {
        function again(k) {
            if (k <= 0) { resolve(); return; }
            setImmediate(() => again(k - 1));
        }
        again(n);
    });
}


async function with_watchdog(promise, counters, max_turns) {
    // Liveness: resolves {hang:true} if the promise has not settled max_turns event-loop turns after
    // the producer pushed EOF (turn counter, no clock).
    let settled = false;
    let result = null;
    promise.then((v) => { settled = true; result = {value: v}; }, (e) => { settled = true; result = {error: e}; });
    let after_eof = 0;
    let total = 0;
    let paused_turns = 0;
    while (!settled) {
        await turns(1);
        counters.turn += 1;
        total += 1;
        // liveness is counted once every planned producer of this request (input and, for a JOIN, the second table) has pushed EOF
        if (counters.eof_pushed_turn !== null && planned_streams.every(st => st.eof_pushed))
            after_eof += 1;
        else
            after_eof = 0;
        // a real stream that the reader left paused while a request is pending will never deliver: count those turns too
        if (paused_probe !== null && paused_probe())
            paused_turns += 1;
        else
            paused_turns = 0;
        if (paused_turns > max_turns)
            return {hang: true, after_eof: paused_turns, total: total};
        if (after_eof > max_turns || (total > 100000 && !counters.real_io))
            return {hang: true, after_eof: after_eof, total: total};
    }
    return result;
}


class HangError extends Error {}


async function guarded(promise, counters, max_turns) {
    if (max_turns === null)
        return await promise;   // real file I/O (bulk / fs stream): completion time is not the simulator's, no turn budget
    let res = await with_watchdog(promise, counters, max_turns);
    if (res.hang)
        throw new HangError(String(res.after_eof));
    if (res.error)
        throw res.error;
    return res.value;
}


async function read_all(iterator, pace, counters, max_turns) {
    // Every call into the reader is guarded separately: the turns the consumer itself waits between
    // calls (pace.gaps) are not the reader's responsibility.
    let records = [];
    let header = null;
    if (pace.header_first) {
        header = await guarded(iterator.get_header(), counters, max_turns);
    }
    if (pace.mode == 'all') {
        records = await guarded(iterator.get_all_records(), counters, max_turns);
    } else {
        let k = 0;
        while (true) {
            let gap = pace.gaps.length ? pace.gaps[k % pace.gaps.length] : 0;
            if (gap > 0) {
                await turns(gap);
                counters.turn += gap;
            }
            let record = await guarded(iterator.get_record(), counters, max_turns);
            k += 1;
            if (record === null)
                break;
            records.push(record);
        }
    }
    if (!pace.header_first)
        header = await guarded(iterator.get_header(), counters, max_turns);
    return {records: records, header: header, warnings: iterator.get_warnings()};
}


function describe_error(e) {
    return ['err', (e && e.constructor && e.constructor.name) || 'Error', String(e && e.message).substring(0, 300)];
}


async function run_read(req) {
    // req: {mode: 'stream'|'bulk'|'fs_stream', plan / hex, encoding, delim, policy, has_header, comment_prefix, pace}
    let counters = {read_calls: 0, chunks_pushed: 0, eof_pushed_turn: null, turn: 0};
    paused_probe = null;
    planned_streams = [];
    let enc = req.encoding;
    let iterator = null;
    let tmp_path = null;
    try {
        if (req.mode == 'stream') {
            let src = new PlannedReadable(req.plan, counters, req.hwm ? {highWaterMark: req.hwm} : {});
            iterator = new rbql_csv.CSVRecordIterator(src, null, enc, req.delim, req.policy, req.has_header, req.comment_prefix);
        } else {
            tmp_path = path.join(req.tmp_dir, 'c20_input.bin');
            fs.writeFileSync(tmp_path, Buffer.from(req.hex, 'hex'));
            if (req.mode == 'bulk') {
                iterator = new rbql_csv.CSVRecordIterator(null, tmp_path, enc, req.delim, req.policy, req.has_header, req.comment_prefix);
            } else {
                let src = fs.createReadStream(tmp_path, req.hwm ? {highWaterMark: req.hwm} : {});
                // real file: the producer is not ours, but its 'end' is observable; liveness is counted from there
                src.on('end', () => { counters.eof_pushed_turn = counters.turn; });
                counters.real_io = true;
                paused_probe = () => src.isPaused();
                iterator = new rbql_csv.CSVRecordIterator(src, null, enc, req.delim, req.policy, req.has_header, req.comment_prefix);
            }
        }
        let pace = req.pace || {mode: 'all', gaps: [], header_first: false};
        let max_turns = req.mode == 'bulk' ? null : (req.max_turns || 8);
        let value = null;
        if (pace.mode == 'query') {
            let out_rows = [];
            let warnings = [];
            let writer = new rbql.TableWriter(out_rows);
            let registry = null;
            let join_tmp_path = null;
            if (req.join_hex !== undefined && req.join_hex !== null) {
                // second reader alive at the same time: the JOIN table, as a planned stream (stream mode) or a file (bulk mode)
                if (req.mode == 'stream') {
                    let jcounters = {read_calls: 0, chunks_pushed: 0, eof_pushed_turn: null, turn: 0};
                    registry = {get_iterator_by_table_id: (table_id) => new rbql_csv.CSVRecordIterator(new PlannedReadable(req.join_plan, jcounters, req.hwm ? {highWaterMark: req.hwm} : {}), null, enc, req.delim, req.policy, req.has_header, req.comment_prefix, table_id, 'b'), get_warnings: () => []};
                } else {
                    join_tmp_path = path.join(req.tmp_dir, 'c20_join.bin');
                    fs.writeFileSync(join_tmp_path, Buffer.from(req.join_hex, 'hex'));
                    registry = {get_iterator_by_table_id: (table_id) => new rbql_csv.CSVRecordIterator(null, join_tmp_path, enc, req.delim, req.policy, req.has_header, req.comment_prefix, table_id, 'b'), get_warnings: () => []};
                }
            }
            let promise = rbql.query(pace.query || 'select *', iterator, writer, warnings, registry).then(() => { return {records: out_rows, header: writer.header, warnings: warnings}; });
            value = await guarded(promise, counters, max_turns);
        } else {
            value = await read_all(iterator, pace, counters, max_turns);
        }
        let records = value.records;
        if (Array.isArray(records) && records.length > 20000) {
            // very many records: ship their number, a hash of their JSON form and both ends instead of the records themselves
            let h = crypto.createHash('sha256');
            for (let i = 0; i < records.length; i += 1000)
                h.update(JSON.stringify(records.slice(i, i + 1000)));
            records = {'$many': records.length, 'sha256': h.digest('hex'), 'head': records.slice(0, 3), 'tail': records.slice(-3)};
        }
        return {outcome: ['ok'], records: records, header: value.header, warnings: value.warnings, counters: counters};
    } catch (e) {
        if (e instanceof HangError) {
            dirty = true;   // an abandoned promise may still fire: the driver must be restarted
            return {outcome: ['hang', parseInt(e.message)], counters: counters};
        }
        return {outcome: describe_error(e), counters: counters};
    } finally {
        await turns(2);   // late events of this request's streams ('end', 'close') fire inside the request, not inside the next one
        if (tmp_path) {
            try { fs.unlinkSync(tmp_path); } catch (e) {}
        }
    }
}


async function run_query_csv(req) {
    // rbql_csv.query_csv on real files (sources are hashed by the Python side before and after)
    let warnings = [];
    try {
        await rbql_csv.query_csv(req.query, req.input_path, req.delim, req.policy, req.output_path, req.delim, req.policy, req.encoding, warnings, req.with_headers || false, null, '', req.bulk_read ? {bulk_read: true} : null);
        return {outcome: ['ok'], warnings: warnings};
    } catch (e) {
        return {outcome: describe_error(e), warnings: warnings};
    }
}


async function handle(req) {
    if (req.kind == 'query_csv')
        return await run_query_csv(req);
    if (req.kind == 'ping')
        return {pong: true, node: process.version, rbql: rbql.version};
    if (req.kind == 'query')
        return await run_query(req);
    if (req.kind == 'read')
        return await run_read(req);
    if (req.kind == 'batch') {
        let responses = [];
        for (let sub of req.requests) {
            if (dirty) {
                responses.push({outcome: ['skipped']});
                continue;
            }
            let merged = Object.assign({}, req.common || {}, sub);
            let sub_resp = await handle(merged);
            if (uncaught.length)
                sub_resp.uncaught_exceptions = uncaught.splice(0);
            responses.push(sub_resp);
        }
        return {responses: responses, dirty: dirty};
    }
    return {error: 'unknown kind ' + req.kind};
}


async function main() {
    const rl = readline.createInterface({input: process.stdin, terminal: false});
    for await (const line of rl) {
        if (!line.trim())
            continue;
        let resp = null;
        try {
            let req = JSON.parse(line);
            unhandled = [];
            uncaught = [];
            resp = await handle(req);
            if (uncaught.length)
                resp.uncaught_exceptions = uncaught.splice(0);
            if (unhandled.length)
                resp.unhandled_rejections = unhandled;
            if (dirty)
                resp.dirty = true;
        } catch (e) {
            resp = {driver_error: String(e && e.stack || e)};
        }
        process.stdout.write(JSON.stringify(resp) + '\n');
    }
}

main().then(() => process.exit(0));
