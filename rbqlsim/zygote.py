# A pristine copy of the harness process, kept aside before this process has executed anything.
#
# Workers execute most scenarios in-process (fast, warm caches). Code under test may keep state at module level, so a
# violation seen there could depend on what the worker ran before: such a violation would not replay from its scenario
# alone. The zygote is forked from the worker (or from the batch parent) *before* the first scenario; it never executes
# a scenario itself. On request it forks a grandchild, which executes one scenario in an interpreter in which no query
# has ever run (and with a Node driver of its own) and reports the result. Used
#   - to confirm every violation before it is kept (and every shrink candidate),
#   - to execute a fixed fraction of the runs from a cold start (what a freshly started program sees).

import json
import os
import select
import struct
import sys
import traceback

from . import core
from .forkrun import fork_call

_z = None      # (owner pid, zygote pid, request write fd, reply read fd)


def _read_exact(fd, n, timeout_s=None):
    chunks = []
    got = 0
    while got < n:
        if timeout_s is not None:
            ready, _, _ = select.select([fd], [], [], timeout_s)
            if not ready:
                return None
        b = os.read(fd, min(1 << 16, n - got))
        if not b:
            return b''
        chunks.append(b)
        got += len(b)
    return b''.join(chunks)


def _child_execute(arg):
    pid, scenario = arg
    from . import runner, jsbridge
    mod = runner.prop_module(pid)
    try:
        fn = getattr(mod, 'execute')
        return fn(scenario)
    finally:
        try:
            jsbridge.stop()
        except Exception:
            pass


def _serve(req_r, rep_w, parent_pid):
    while True:
        ready, _, _ = select.select([req_r], [], [], 2.0)
        if not ready:
            if os.getppid() != parent_pid:
                os._exit(0)      # orphaned
            continue
        head = _read_exact(req_r, 4)
        if not head:
            os._exit(0)
        (n,) = struct.unpack('>I', head)
        body = _read_exact(req_r, n)
        if not body or len(body) < n:
            os._exit(0)
        try:
            req = json.loads(body.decode('utf-8'))
            res = {'ok': fork_call(_child_execute, (req['pid'], req['scenario']), timeout_s=req.get('timeout_s', 120))}
        except BaseException:
            res = {'harness_exc': traceback.format_exc()}
        data = json.dumps(res, default=core._default).encode('utf-8')
        os.write(rep_w, struct.pack('>I', len(data)))
        view = memoryview(data)
        while len(view):
            k = os.write(rep_w, view[:1 << 16])
            view = view[k:]


def start():
    """Fork the zygote now. Must be called before this process executes its first scenario."""
    global _z
    if _z is not None and _z[0] == os.getpid():
        return
    req_r, req_w = os.pipe()
    rep_r, rep_w = os.pipe()
    sys.stdout.flush()
    sys.stderr.flush()
    me = os.getpid()
    zp = os.fork()
    if zp == 0:
        try:
            os.close(req_w)
            os.close(rep_r)
            _serve(req_r, rep_w, me)
        finally:
            os._exit(0)
    os.close(req_r)
    os.close(rep_w)
    _z = (me, zp, req_w, rep_r)


def available():
    return _z is not None and _z[0] == os.getpid()


def call(pid, scenario, timeout_s=120):
    """Execute the scenario in a grandchild of the pristine zygote; returns the result dict of mod.execute."""
    if not available():
        raise core.HarnessError('zygote was not started in this process')
    _me, _zp, req_w, rep_r = _z
    data = json.dumps({'pid': pid, 'scenario': scenario, 'timeout_s': timeout_s}, default=core._default).encode('utf-8')
    os.write(req_w, struct.pack('>I', len(data)))
    view = memoryview(data)
    while len(view):
        k = os.write(req_w, view[:1 << 16])
        view = view[k:]
    head = _read_exact(rep_r, 4, timeout_s + 30)
    if not head:
        raise core.HarnessError('zygote did not answer')
    (n,) = struct.unpack('>I', head)
    body = _read_exact(rep_r, n, timeout_s + 30)
    if body is None or len(body) < n:
        raise core.HarnessError('zygote answer truncated')
    res = json.loads(body.decode('utf-8'))
    if 'harness_exc' in res:
        raise core.HarnessError('exception inside the zygote:\n' + res['harness_exc'])
    return res['ok']


def stop():
    global _z
    if _z is not None and _z[0] == os.getpid():
        try:
            os.close(_z[2])
            os.close(_z[3])
            os.waitpid(_z[1], 0)
        except Exception:
            pass
    _z = None
