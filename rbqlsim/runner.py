# Batch driver: seeded generation -> deterministic execution -> merge -> shrink -> replay -> evidence.

import importlib
import json
import os
import random
import subprocess
import sys
import time
import traceback
import faulthandler
import multiprocessing
from concurrent.futures import ProcessPoolExecutor, wait, FIRST_COMPLETED

from . import core, fsseam, zygote

PROPS = {
    'C02': 'rbqlsim.props.c02',
    'C06': 'rbqlsim.props.c06',
    'C12': 'rbqlsim.props.c12',
    'C15': 'rbqlsim.props.c15',
    'C16': 'rbqlsim.props.c16',
    'C20': 'rbqlsim.props.c20',
}


def prop_module(pid):
    return importlib.import_module(PROPS[pid])


def run_rng(pid, seed, idx):
    # str seeding goes through SHA-512: independent of PYTHONHASHSEED.
    return random.Random('%s:%d:%d' % (pid, seed, idx))


def _blank_summary():
    return {
        'completed': 0, 'evals': 0, 'steps': 0, 'discards': 0,
        'counters': {}, 'keys': {}, 'violations': [], 'samples': [],
        'harness_errors': [], 'digests': [],
    }


def in_process(mod):
    return bool(getattr(mod, 'IN_PROCESS', False))


def run_one(mod, pid, seed, idx, tier):
    rng = run_rng(pid, seed, idx)
    scenario = mod.generate(rng, tier, idx)
    every = getattr(mod, 'COLD_START_EVERY', 0)
    if in_process(mod) and every and idx % every == every - 1 and zygote.available():
        # executed in an interpreter in which no query has run yet (what a freshly started program sees)
        result = zygote.call(pid, scenario)
        result['cold_start'] = True
        core.bump(result.setdefault('counters', {}), 'sched.executed_in_pristine_interpreter')
    else:
        result = mod.execute(scenario)
    return scenario, result


def confirm_violation(mod, pid, case, result):
    """A violation is kept only if it is a function of its scenario: it must show again, with the same oracle, in an
    interpreter (and Node driver) that has executed nothing else."""
    if in_process(mod) and zygote.available():
        if result.get('cold_start'):
            return True
        again = zygote.call(pid, case)
        return again['verdict'] == 'violation' and again['oracle'] == result['oracle']
    if hasattr(mod, 'confirm'):
        return mod.confirm(case, result)
    return True


def pristine_execute(mod, pid, scenario):
    if in_process(mod) and zygote.available():
        return zygote.call(pid, scenario)
    return mod.execute(scenario)


def run_chunk(args):
    pid, seed, tier, start, stop, deadline, want_digests = args
    faulthandler.enable()
    out = _blank_summary()
    try:
        fsseam.new_process_scratch()
        mod = prop_module(pid)
        core.load_tree()
        if in_process(mod):
            zygote.start()      # before this worker executes anything
        if hasattr(mod, 'worker_init'):
            mod.worker_init()
    except BaseException:
        out['harness_errors'].append({'idx': None, 'trace': traceback.format_exc()})
        return out
    for idx in range(start, stop):
        if deadline is not None and time.time() > deadline:
            break
        try:
            scenario, result = run_one(mod, pid, seed, idx, tier)
        except BaseException:
            out['harness_errors'].append({'idx': idx, 'trace': traceback.format_exc()})
            if len(out['harness_errors']) >= 3:
                break
            continue
        out['completed'] += 1
        out['evals'] += result.get('evals', 1)
        out['steps'] += result.get('steps', 0)
        core.merge_counters(out['counters'], result.get('counters', {}))
        if result['verdict'] == 'discard':
            out['discards'] += 1
        k = result.get('key')
        if k is not None and result.get('nontrivial', 0) > 0:
            out['keys'][k] = result['nontrivial']
        if want_digests:
            out['digests'].append((idx, result.get('digest')))
        if result['verdict'] == 'violation':
            try:
                ok = confirm_violation(mod, pid, result.get('case', scenario), result)
            except BaseException:
                out['harness_errors'].append({'idx': idx, 'trace': traceback.format_exc()})
                continue
            if not ok:
                # seen only with whatever this worker (or its Node driver) had executed before: not a function of the scenario
                core.bump(out['counters'], 'discard.violation_not_reproducible_from_a_pristine_start')
                out['discards'] += 1
                continue
        if result['verdict'] == 'violation' and len(out['violations']) < 4:
            out['violations'].append({'idx': idx, 'scenario': result.get('case', scenario), 'oracle': result['oracle'],
                                      'detail': result.get('detail'), 'signature': mod.signature(result.get('case', scenario), result)})
        if len(out['samples']) < 2 and result['verdict'] == 'ok' and result.get('nontrivial', 0) > 0:
            out['samples'].append({'run': idx, 'scenario': mod.sample_view(scenario)})
    return out


def load_known_findings():
    path = os.path.join(core.VERIF, 'known_findings.json')
    if not os.path.exists(path):
        return []
    with open(path) as f:
        return json.load(f).get('findings', [])


def tree_revision():
    try:
        rev = subprocess.run(['git', '-C', core.REPO, 'rev-parse', '--short', 'HEAD'], capture_output=True, text=True, timeout=20).stdout.strip()
        dirty = subprocess.run(['git', '-C', core.REPO, 'status', '--porcelain', '--untracked-files=no'], capture_output=True, text=True, timeout=20).stdout.strip()
        return rev + ('+dirty' if dirty else '')
    except Exception:
        return 'unknown'


def shrink(mod, scenario, oracle, budget_execs=400, budget_s=25.0, pid=None):
    """Greedy: keep a candidate iff executing it still yields a violation of the same oracle."""
    t0 = time.time()
    execs = 0
    cur = scenario
    improved = True
    while improved and execs < budget_execs and time.time() - t0 < budget_s:
        improved = False
        for cand in mod.shrinks(cur):
            if execs >= budget_execs or time.time() - t0 > budget_s:
                break
            execs += 1
            try:
                r = mod.execute(cand)
            except BaseException:
                continue
            if r['verdict'] == 'violation' and r['oracle'] == oracle:
                try:
                    if not confirm_violation(mod, pid, r.get('case', cand), r):
                        continue
                except BaseException:
                    continue
                cur = r.get('case', cand)
                improved = True
                break
    return cur, execs


def write_replay(pid, seed, idx, scenario, result, extra=None):
    d = os.path.join(core.VERIF, 'replays', pid)
    os.makedirs(d, exist_ok=True)
    path = os.path.join(d, '%d-%d.json' % (seed, idx))
    doc = {
        'property': pid, 'seed': seed, 'run': idx, 'tree': tree_revision(),
        'oracle': result['oracle'], 'detail': result.get('detail'),
        'scenario': scenario,
    }
    if extra:
        doc.update(extra)
    with open(path, 'w') as f:
        json.dump(doc, f, indent=1, sort_keys=True, default=core._default)
        f.write('\n')
    return path


def replay_file(pid, path):
    """Execute the scenario of a replay file in this (fresh) process."""
    mod = prop_module(pid)
    core.load_tree()
    if hasattr(mod, 'worker_init'):
        mod.worker_init()
    with open(path) as f:
        doc = json.load(f)
    result = mod.execute(doc['scenario'])
    if result['verdict'] == 'violation':
        sig = mod.signature(result.get('case', doc['scenario']), result)
        print('oracle=%s signature=%s' % (result['oracle'], sig))
        print('detail=%s' % core.canon(result.get('detail')))
        known = [k for k in load_known_findings() if k.get('property') == pid and k.get('status') == 'known' and k.get('signature') == sig]
        if known:
            print('KNOWN-FINDING: property=%s %s' % (pid, known[0].get('what', sig)))
            return 0
        print('VIOLATION property=%s replay=%s' % (pid, path))
        return 1
    print('replay: no violation (verdict=%s)' % result['verdict'])
    return 0


def fresh_replay(pid, path):
    """Replay in a fresh interpreter; returns True iff it reports the violation again."""
    cmd = [sys.executable, os.path.join(core.VERIF, 'bin', 'check'), pid, '--replay', path]
    env = dict(os.environ)
    p = subprocess.run(cmd, capture_output=True, text=True, timeout=300, env=env)
    return p.returncode == 1 and ('VIOLATION property=%s' % pid) in p.stdout, p.stdout[-2000:] + p.stderr[-2000:]


def run_batch(pid, tier, seed, runs=None, workers=None, deadline_s=None, want_digests=False, write_evidence=True, quiet=False):
    mod = prop_module(pid)
    core.load_tree()   # import once in the parent; forked workers inherit the modules
    fsseam.ensure_root()
    if in_process(mod):
        fsseam.new_process_scratch()
        zygote.start()   # the parent executes scenarios only while shrinking; its pristine copy is put aside now
    cfg = dict(mod.TIERS[tier])
    if runs is not None:
        cfg['runs'] = runs
    if deadline_s is not None:
        cfg['deadline_s'] = deadline_s
    if os.environ.get('VERIF_RUNS'):
        cfg['runs'] = int(os.environ['VERIF_RUNS'])
    if os.environ.get('VERIF_DEADLINE_S'):
        cfg['deadline_s'] = float(os.environ['VERIF_DEADLINE_S'])
    nworkers = workers or int(os.environ.get('VERIF_WORKERS', '0')) or min(16, os.cpu_count() or 1)
    total = cfg['runs']
    chunk = cfg.get('chunk', max(1, min(200, total // (nworkers * 8) or 1)))
    t0 = time.time()
    deadline = t0 + cfg['deadline_s']
    tasks = [(pid, seed, tier, s, min(total, s + chunk), deadline, want_digests) for s in range(0, total, chunk)]
    merged = _blank_summary()
    hard_timeout = cfg['deadline_s'] + cfg.get('grace_s', 120)
    ctx = multiprocessing.get_context('fork')
    pool = ProcessPoolExecutor(max_workers=nworkers, mp_context=ctx)
    harness_fail = None
    try:
        futs = [pool.submit(run_chunk, t) for t in tasks]
        pending = set(futs)
        while pending:
            left = hard_timeout - (time.time() - t0)
            if left <= 0:
                harness_fail = 'timeout: %d chunks still pending after %.0fs' % (len(pending), hard_timeout)
                break
            done, pending = wait(pending, timeout=min(left, 5.0), return_when=FIRST_COMPLETED)
            for f in done:
                try:
                    part = f.result()
                except BaseException as e:
                    harness_fail = 'worker died: %r' % (e,)
                    pending = set()
                    break
                merged['completed'] += part['completed']
                merged['evals'] += part['evals']
                merged['steps'] += part['steps']
                merged['discards'] += part['discards']
                core.merge_counters(merged['counters'], part['counters'])
                merged['keys'].update(part['keys'])
                merged['violations'].extend(part['violations'])
                merged['harness_errors'].extend(part['harness_errors'])
                merged['digests'].extend(part['digests'])
                if len(merged['samples']) < 4:
                    merged['samples'].extend(part['samples'][:4 - len(merged['samples'])])
    finally:
        for p in list(getattr(pool, '_processes', {}).values()):
            if harness_fail:
                try:
                    p.kill()
                except Exception:
                    pass
        pool.shutdown(wait=not harness_fail, cancel_futures=True)
    wall = time.time() - t0

    if harness_fail or merged['harness_errors']:
        msg = harness_fail or merged['harness_errors'][0]['trace']
        print('HARNESS-ERROR property=%s %s' % (pid, msg.strip().splitlines()[-1] if msg else ''))
        if merged['harness_errors']:
            sys.stderr.write(merged['harness_errors'][0]['trace'])
            sys.stderr.write('(run index %r)\n' % (merged['harness_errors'][0]['idx'],))
        return 2, merged

    # ---- violations: group by signature, lowest run index first
    known = [k for k in load_known_findings() if k.get('property') == pid]
    known_sigs = {k['signature']: k for k in known if k.get('status') == 'known'}
    merged['violations'].sort(key=lambda v: v['idx'])
    reported = []
    known_hit = {}
    seen_sigs = set()
    exit_code = 0
    unreproducible = []
    for v in merged['violations']:
        sig = v['signature']
        if sig in seen_sigs:
            continue
        if len(unreproducible) >= 6:
            break
        small, execs = shrink(mod, v['scenario'], v['oracle'], pid=pid)
        r = pristine_execute(mod, pid, small)
        if r['verdict'] != 'violation':
            small, r = v['scenario'], pristine_execute(mod, pid, v['scenario'])
        if r['verdict'] != 'violation':
            # seen in a worker, not here: it depends on something outside the scenario (e.g. which addresses a worker's heap
            # hands out). Not reportable as it stands; other sightings may be. If none is, the batch ends as a harness error.
            unreproducible.append(v['idx'])
            continue
        seen_sigs.add(sig)
        sig2 = mod.signature(r.get('case', small), r)
        if sig2 in seen_sigs and sig2 != sig:
            continue
        seen_sigs.add(sig2)
        if sig2 in known_sigs:
            known_hit[sig2] = known_sigs[sig2]
            continue
        path = write_replay(pid, seed, v['idx'], r.get('case', small), r, {'shrink_execs': execs, 'signature': sig2})
        ok, out = fresh_replay(pid, path)
        if not ok and small is not v['scenario']:
            # The minimised scenario fails here but not in a fresh interpreter: it sits on a threshold that depends on the
            # process it runs in (e.g. how much of the recursion limit the caller's own stack uses). Fall back to the
            # scenario as generated, which is what the batch saw, and require that one to replay.
            r0 = pristine_execute(mod, pid, v['scenario'])
            if r0['verdict'] == 'violation':
                path = write_replay(pid, seed, v['idx'], r0.get('case', v['scenario']), r0, {'shrink_execs': 0, 'signature': sig2, 'note': 'not minimised: the minimised form did not replay in a fresh process'})
                ok, out = fresh_replay(pid, path)
                if ok:
                    r = r0
        with open(path) as f:
            doc = json.load(f)
        doc['replayed'] = bool(ok)
        with open(path, 'w') as f:
            json.dump(doc, f, indent=1, sort_keys=True, default=core._default)
            f.write('\n')
        if not ok:
            print('HARNESS-ERROR property=%s replay %s did not reproduce in a fresh process:\n%s' % (pid, path, out))
            return 2, merged
        print('VIOLATION property=%s replay=%s' % (pid, path))
        print('  oracle=%s signature=%s run=%d seed=%d' % (r['oracle'], sig2, v['idx'], seed))
        print('  detail=%s' % core.canon(r.get('detail'))[:1500])
        reported.append(path)
        exit_code = 1
        if len(reported) >= 3:
            break
    if unreproducible and not reported and not known_hit:
        print('HARNESS-ERROR property=%s violation(s) at run %s did not re-execute outside the worker that saw them' % (pid, unreproducible[:5]))
        return 2, merged
    for sig, k in sorted(known_hit.items()):
        print('KNOWN-FINDING: property=%s %s' % (pid, k.get('what', sig)))

    if write_evidence:
        write_evidence_file(mod, pid, tier, seed, cfg, merged, wall, nworkers, len(reported), sorted(known_hit))
    if not quiet:
        distinct = sum(merged['keys'].values())
        print('%s tier=%s seed=%d runs=%d/%d evaluations=%d distinct_nontrivial=%d discards=%d steps=%d wall=%.1fs violations=%d' % (
            pid, tier, seed, merged['completed'], total, merged['evals'], distinct, merged['discards'], merged['steps'], wall, len(reported)))
    return exit_code, merged


def write_evidence_file(mod, pid, tier, seed, cfg, merged, wall, nworkers, nviol, known_hit):
    distinct = sum(merged['keys'].values())
    fault_counters = {k: v for k, v in merged['counters'].items() if k.startswith('fault.')}
    probe_counters = {k: v for k, v in merged['counters'].items() if k.startswith('probe.')}
    other = {k: v for k, v in merged['counters'].items() if not k.startswith('fault.') and not k.startswith('probe.')}
    hours = max(wall, 1e-9) / 3600.0
    cov = {
        'evaluations': int(merged['evals']),
        'distinct_nontrivial': int(distinct),
        'rule': mod.RULE,
        'samples': merged['samples'][:4] or [{'note': 'no non-trivial sample recorded'}],
        'simulated_runs': int(merged['completed']),
        'runs_requested': int(cfg['runs']),
        'runs_per_hour': int(merged['completed'] / hours),
        'evaluations_per_hour': int(merged['evals'] / hours),
        'seeds': {'VERIF_SEED': seed, 'run_indices': [0, int(cfg['runs'])], 'derivation': "random.Random('%s:<seed>:<run>') per run" % pid},
        'logical_steps': int(merged['steps']),
        'simulated_time': 'none: RBQL has no clock or timer; progress is counted in seam events (logical_steps)',
        'faults_fired': fault_counters,
        'probes': probe_counters,
        'other_counters': other,
        'discarded': int(merged['discards']),
        'components': mod.COMPONENTS,
        'workers': nworkers,
        'known_findings_hit': known_hit,
        'tree': tree_revision(),
        'exhaustive': False,
    }
    doc = {
        'property_id': pid,
        'tier': tier,
        'seed': int(seed),
        'level': mod.LEVEL,
        'coverage': cov,
        'assumptions': mod.ASSUMPTIONS,
        'wall_s': round(wall, 2),
        'violations': int(nviol),
    }
    d = os.path.join(core.VERIF, 'evidence')
    os.makedirs(d, exist_ok=True)
    with open(os.path.join(d, '%s.json' % pid), 'w') as f:
        json.dump(doc, f, indent=1, sort_keys=True, default=core._default)
        f.write('\n')
