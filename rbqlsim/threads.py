# Baton scheduler: real threads, exactly one runnable at a time; at every yield point the next
# thread is taken from the scenario's explicit `picks` list (exhausted list -> lowest runnable id).

import sys
import threading
import time

from . import core


class Hang(core.HarnessError):
    pass


class Stalled(Exception):
    """The thread that was given the turn never reached its next scheduling point and is not moving: it waits for
    something only a suspended thread could release (a lock of the code under test held across scheduling points)."""

    def __init__(self, info):
        Exception.__init__(self, 'stalled: %r' % (info,))
        self.info = info


class Baton(object):
    def __init__(self, nthreads, picks, log, max_yields=20000, line_every=None, trace_files=()):
        self.n = nthreads
        self.picks = list(picks)
        self.pi = 0
        self.sems = [threading.Semaphore(0) for _ in range(nthreads)]
        self.done = [False] * nthreads
        self.main_sem = threading.Semaphore(0)
        self.log = log
        self.max_yields = max_yields
        self.yields = 0
        self.switches = 0
        self.line_every = line_every
        self.trace_files = tuple(trace_files)
        self.line_counts = [0] * nthreads
        self.errors = [None] * nthreads
        self.aborted = False
        self.choice_log = []     # (number of runnable threads, index taken) at every decision, for schedule enumeration

    def _choose(self):
        runnable = [i for i in range(self.n) if not self.done[i]]
        if not runnable:
            return None
        if self.pi < len(self.picks):
            k = self.picks[self.pi] % len(runnable)
            self.pi += 1
        else:
            k = 0
        self.choice_log.append((len(runnable), k))
        return runnable[k]

    def yield_point(self, tid, label, *args):
        if self.aborted:
            raise core.EventCap()
        self.yields += 1
        if self.yields > self.max_yields:
            self.aborted = True
            raise core.EventCap()
        self.log.add(tid, label, *args)
        nxt = self._choose()
        if nxt is not None and nxt != tid:
            self.switches += 1
            self.sems[nxt].release()
            self.sems[tid].acquire()
            if self.aborted:
                raise core.EventCap()

    def _tracer_for(self, tid):
        files = self.trace_files
        every = self.line_every
        baton = self

        def local(frame, event, arg):
            if event == 'line':
                baton.line_counts[tid] += 1
                if baton.line_counts[tid] % every == 0:
                    baton.yield_point(tid, 'line', frame.f_code.co_name, frame.f_lineno)
            return local

        def glob(frame, event, arg):
            if frame.f_code.co_filename in files:
                return local
            return None
        return glob

    def _thread_main(self, tid, fn):
        self.sems[tid].acquire()
        try:
            if self.aborted:
                return
            if self.line_every:
                sys.settrace(self._tracer_for(tid))
            try:
                fn()
            finally:
                if self.line_every:
                    sys.settrace(None)
        except core.EventCap:
            self.errors[tid] = 'cap'
        except BaseException as e:   # the workload function is expected to catch query errors itself
            self.errors[tid] = 'harness:%r' % (e,)
        finally:
            self.done[tid] = True
            if all(self.done):
                self.main_sem.release()
            elif self.aborted:
                for i in range(self.n):
                    if not self.done[i]:
                        self.sems[i].release()
            else:
                self.sems[self._choose()].release()

    def _positions(self, threads):
        frames = sys._current_frames()
        pos = {}
        for i, th in enumerate(threads):
            if self.done[i] or th.ident not in frames:
                continue
            f = frames[th.ident]
            pos[i] = (f.f_code.co_filename, f.f_code.co_name, f.f_lineno, f.f_lasti)
        return pos

    def _all_threads_motionless(self, threads):
        first = self._positions(threads)
        progress = (self.yields, sum(self.done))
        for _ in range(4):
            time.sleep(0.3)
            if self._positions(threads) != first or (self.yields, sum(self.done)) != progress:
                return False
        return True

    def _where(self, threads):
        out = {}
        frames = sys._current_frames()
        for i, th in enumerate(threads):
            if self.done[i] or th.ident not in frames:
                continue
            f = frames[th.ident]
            stack = []
            while f is not None and len(stack) < 6:
                stack.append('%s:%s' % (f.f_code.co_name, f.f_lineno))
                f = f.f_back
            out[str(i)] = stack
        return out

    def run(self, fns, watchdog_s=90, stall_s=10.0):
        threads = [threading.Thread(target=self._thread_main, args=(i, fn), name='sim-%d' % i, daemon=True) for i, fn in enumerate(fns)]
        for th in threads:
            th.start()
        first = self._choose()
        self.sems[first].release()
        # Liveness watchdog (the only place a real clock is read, and it decides nothing but "nobody moves any more"): no
        # scheduling point reached and no thread finished for stall_s seconds, and every unfinished thread sits at exactly
        # the same instruction over several samples.
        t_start = time.time()
        last = (self.yields, sum(self.done))
        last_change = t_start
        while not self.main_sem.acquire(timeout=0.25):
            now = time.time()
            cur = (self.yields, sum(self.done))
            if cur != last:
                last, last_change = cur, now
            elif now - last_change > stall_s and self._all_threads_motionless(threads):
                self.aborted = True
                info = {'yields': self.yields, 'finished': [i for i in range(self.n) if self.done[i]],
                        'where': self._where(threads)}
                raise Stalled(info)
            if now - t_start > watchdog_s:
                self.aborted = True
                for s in self.sems:
                    s.release()
                raise Hang('baton scheduler: threads did not finish within %ss (yields=%d)' % (watchdog_s, self.yields))
        for th in threads:
            th.join(timeout=10)
