# Shared workload vocabulary: small tables with many duplicate keys and a query grammar whose
# text is valid both for the Python and the JavaScript engine unless marked py_only.

C1 = ['1', '2', '3', '10', '2', '1']
C2 = ['v1', 'v2', 'x', 'v1', 'v10', 'v2']
C3 = ['p;q', 'r', '', 's;t;u', 'p;q', 'r;r']
C2_NONASCII = ['vé', '€x']
HEADER = ['id', 'name', 'tag', 'extra']


def gen_table(rng, nrows, ncols, nonascii=False, ragged=False):
    rows = []
    for _ in range(nrows):
        row = [rng.choice(C1)]
        if ncols >= 2:
            row.append(rng.choice(C2 + (C2_NONASCII if nonascii else [])))
        if ncols >= 3:
            row.append(rng.choice(C3))
        for _k in range(3, ncols):
            row.append(rng.choice(C1))
        if ragged and rng.random() < 0.3:
            if rng.random() < 0.5 and len(row) > 1:
                row = row[:-1]
            else:
                row = row + ['z']
        rows.append(row)
    return rows


def gen_join_table(rng, nrows, fanout=True):
    """B table keyed by values of A's second column; several rows may share a key."""
    keys = ['v1', 'v2', 'x', 'nokey']
    rows = []
    for _ in range(nrows):
        k = rng.choice(keys if fanout else keys[:3])
        rows.append([k, rng.choice(['J1', 'J2', 'J3']), rng.choice(['m', 'n'])])
    if not fanout:
        seen = set()
        uniq = []
        for r in rows:
            if r[0] not in seen:
                seen.add(r[0])
                uniq.append(r)
        rows = uniq
    return rows


def to_csv(rows, delim=',', line_sep='\n', last_terminated=True):
    body = line_sep.join(delim.join(r) for r in rows)
    if rows and last_terminated:
        body += line_sep
    return body


# query shapes ------------------------------------------------------------------------------

def select_shapes(join_id):
    """(shape name, query text, flags). Flags: join, unnest, buffered (needs all input before output),
    cols (min columns in A)."""
    return [
        ('stream', 'select a1, a2', {'cols': 2}),
        ('stream', 'select *', {'cols': 1}),
        ('stream', 'select a2, NR, a1', {'cols': 2}),
        ('where', "select a1, a2 where a2 == 'v1'", {'cols': 2}),
        ('where', 'select * where NR > 2', {'cols': 1}),
        ('sorted', 'select a1, a2 order by a1', {'cols': 2, 'buffered': True}),
        ('sorted', 'select * order by a2 desc', {'cols': 2, 'buffered': True}),
        ('sorted', 'select a2 order by a2, a1', {'cols': 2, 'buffered': True}),
        ('aggregate', 'select a2, count(*) group by a2', {'cols': 2, 'buffered': True}),
        ('aggregate', 'select count(*), max(a1)', {'cols': 1, 'buffered': True}),
        ('distinct', 'select distinct a2', {'cols': 2}),
        ('distinct', 'select distinct a1, a2', {'cols': 2}),
        ('distinct_count', 'select distinct count a2', {'cols': 2, 'buffered': True}),
        ('unnest', "select a1, unnest(a3.split(';'))", {'cols': 3, 'unnest': True}),
        ('join', 'select a1, b2 join %s on a2 == b1' % join_id, {'cols': 2, 'join': True}),
        ('join', 'select * left join %s on a2 == b1' % join_id, {'cols': 2, 'join': True}),
        ('join_sorted', 'select a1, b2 join %s on a2 == b1 order by b2' % join_id, {'cols': 2, 'join': True, 'buffered': True}),
        ('layered', 'select distinct a2 order by a2', {'cols': 2, 'buffered': True}),
        ('layered', 'select top 2 distinct a2, a1 order by a1 desc', {'cols': 2, 'buffered': True}),
        ('layered', 'select a2, count(*) group by a2 limit 1', {'cols': 2, 'buffered': True}),
        ('layered', 'select distinct count a2 order by a2 limit 2', {'cols': 2, 'buffered': True}),
        ('layered', 'select top 1 distinct a1', {'cols': 1}),
    ]


def update_shapes(join_id):
    return [
        ('update', "update set a2 = 'Z' where a1 == '1'", {'cols': 2}),
        ('update', 'update a1 = a2 + a1', {'cols': 2}),
        ('update_join', 'update set a1 = b2 join %s on a2 == b1' % join_id, {'cols': 2, 'join': True, 'unique_join': True}),
    ]


def add_bound(rng, query, n):
    if rng.random() < 0.5 or not query.lower().startswith('select '):
        return query + ' limit %d' % n
    return 'select top %d ' % n + query[len('select '):]
