# Simulated streams: the "network and disk" of a library that reads and writes
# caller-supplied stream objects. All behaviour is prescribed by the scenario.

import io
import os


class SimTextSource(object):
    """Text stream whose read(n) returns the next prescribed piece (never more than n,
    never '' before EOF): what a pipe, tty or socket-backed text stream may deliver.
    With seekable=True it also offers tell() / seek() the way io.StringIO does (positions are character offsets);
    the prescribed piece boundaries stay where they are in the text."""

    def __init__(self, text, pieces, log=None, name='src', seekable=False):
        assert sum(pieces) == len(text), (pieces, len(text))
        self.text = text
        self.pieces = list(pieces)
        self.bounds = []      # absolute end offsets of the pieces
        acc = 0
        for p in self.pieces:
            acc += p
            self.bounds.append(acc)
        self.pos = 0
        self.requests = []   # (n, returned_len)
        self.closed = False
        self.log = log
        self.name = name
        self.nseeks = 0
        if seekable:
            self.tell = self._tell
            self.seek = self._seek
            self.seekable = lambda: True

    def _next_bound(self):
        for b in self.bounds:
            if b > self.pos:
                return b
        return len(self.text)

    def read(self, n=-1):
        if self.closed:
            raise ValueError('I/O operation on closed file.')
        if n is None or n < 0:
            out = self.text[self.pos:]
            self.pos = len(self.text)
        elif n == 0:
            out = ''
        else:
            k = min(n, self._next_bound() - self.pos)
            out = self.text[self.pos:self.pos + k]
            self.pos += k
        self.requests.append((n, len(out)))
        if self.log is not None:
            self.log.add(self.name, 'read', n, len(out))
        return out

    def _tell(self):
        return self.pos

    def _seek(self, offset, whence=0):
        if whence != 0 or offset < 0:
            raise io.UnsupportedOperation('can\'t do nonzero cur-relative seeks')
        self.pos = min(offset, len(self.text))
        self.nseeks += 1
        if self.log is not None:
            self.log.add(self.name, 'seek', offset)
        return self.pos

    def close(self):
        self.closed = True


class SimRawSource(io.RawIOBase):
    """Raw byte source: readinto() returns the next prescribed short read. A piece larger
    than the caller's buffer is delivered over several calls."""

    def __init__(self, data, pieces, log=None, name='raw'):
        io.RawIOBase.__init__(self)
        assert sum(pieces) == len(data), (pieces, len(data))
        self.data = bytes(data)
        self.pieces = list(pieces)
        self.pi = 0
        self.left = self.pieces[0] if self.pieces else 0
        self.pos = 0
        self.nreads = 0
        self.log = log
        self.name = name

    def readable(self):
        return True

    def readinto(self, b):
        while self.left == 0 and self.pi < len(self.pieces):
            self.pi += 1
            self.left = self.pieces[self.pi] if self.pi < len(self.pieces) else 0
        k = min(len(b), self.left)
        b[:k] = self.data[self.pos:self.pos + k]
        self.pos += k
        self.left -= k
        self.nreads += 1
        if self.log is not None:
            self.log.add(self.name, 'readinto', len(b), k)
        return k


class StdShape(object):
    """The sys.stdin / sys.stdout shape: a text-ish object exposing the byte stream as .buffer."""

    def __init__(self, buffer):
        self.buffer = buffer
        self.closed = False
        self.encoding = 'utf-8'

    # Only used when the code under test treats the object as a text stream (encoding=None).
    def write(self, s):
        return self.buffer.write(s.encode('utf-8'))

    def read(self, n=-1):
        return self.buffer.read(n).decode('utf-8')

    def flush(self):
        self.buffer.flush()

    def close(self):
        self.closed = True
        try:
            self.buffer.close()
        except BrokenPipeError:
            pass

    def isatty(self):
        return False

    def fileno(self):
        raise io.UnsupportedOperation('fileno')


def make_byte_input(data, pieces, bufsize, shape, log=None):
    """Byte stream as the tree's CSVRecordIterator(stream, encoding='utf-8'|'latin-1') takes it."""
    raw = SimRawSource(data, pieces, log)
    buffered = io.BufferedReader(raw, buffer_size=max(1, bufsize))
    if shape == 'std':
        return StdShape(buffered), raw
    return buffered, raw


class SinkBroken(Exception):
    pass


def broken_pipe_error(flavor=None):
    """The ways a stream may say "the reader has gone": all of them are BrokenPipeError to Python 3."""
    if flavor == 'noerrno':
        return BrokenPipeError()                 # raised by an adaptor / wrapper object: no errno at all
    if flavor == 'eshutdown':
        import errno
        return OSError(errno.ESHUTDOWN, os.strerror(errno.ESHUTDOWN))     # the constructor maps ESHUTDOWN to BrokenPipeError
    return BrokenPipeError(32, 'Broken pipe')


class SimTextSink(object):
    """Text sink that raises BrokenPipeError from the k-th write() call on (k counted from 0),
    and/or from flush()/close()."""

    def __init__(self, break_at_call=None, break_on_flush=False, log=None, name='sink', flavor=None):
        self.flavor = flavor
        self.parts = []
        self.calls = 0
        self.break_at_call = break_at_call
        self.break_on_flush = break_on_flush
        self.broken_seen = 0          # number of times we raised
        self.writes_after_break = 0
        self.flushes = 0
        self.closed = False
        self.log = log
        self.name = name

    def write(self, s):
        k = self.calls
        self.calls += 1
        if self.break_at_call is not None and k >= self.break_at_call:
            if self.broken_seen:
                self.writes_after_break += 1
            self.broken_seen += 1
            if self.log is not None:
                self.log.add(self.name, 'write!', k)
            raise broken_pipe_error(self.flavor)
        self.parts.append(s)
        if self.log is not None:
            self.log.add(self.name, 'write', k, len(s))
        return len(s)

    def flush(self):
        self.flushes += 1
        if self.log is not None:
            self.log.add(self.name, 'flush')
        if self.break_on_flush or (self.break_at_call is not None and self.calls > self.break_at_call):
            self.broken_seen += 1
            raise broken_pipe_error(self.flavor)

    def close(self):
        self.closed = True
        if self.log is not None:
            self.log.add(self.name, 'close')

    def getvalue(self):
        return ''.join(self.parts)


class SimRawSink(io.RawIOBase):
    """Raw byte sink accepting `budget` bytes, then raising BrokenPipeError on every further
    write (the reader end of a pipe has gone). budget=None: never breaks."""

    def __init__(self, budget=None, log=None, name='rawsink', atomic=False, errno_code=None, flavor=None):
        io.RawIOBase.__init__(self)
        self.flavor = flavor
        self.errno_code = errno_code     # None: the reader is gone (EPIPE); else another device error, e.g. ENOSPC, EIO
        self.atomic = atomic      # True: a write that does not fit entirely is refused (the reader went away between two writes)
        self.budget = budget
        self.accepted = bytearray()
        self.raised = 0
        self.nwrites = 0
        self.log = log
        self.name = name
        self.close_calls = 0

    def writable(self):
        return True

    def write(self, b):
        self.nwrites += 1
        b = bytes(b)
        if self.budget is None:
            self.accepted += b
            return len(b)
        room = self.budget - len(self.accepted)
        if room <= 0 or (self.atomic and room < len(b)):
            self.budget = len(self.accepted)
            self.raised += 1
            if self.log is not None:
                self.log.add(self.name, 'write!', len(b))
            if self.errno_code is not None:
                raise OSError(self.errno_code, os.strerror(self.errno_code))
            raise broken_pipe_error(self.flavor)
        k = min(room, len(b))
        self.accepted += b[:k]
        if self.log is not None:
            self.log.add(self.name, 'write', len(b), k)
        return k

    def close(self):
        self.close_calls += 1
        io.RawIOBase.close(self)


def make_byte_output(budget, bufsize, shape, log=None):
    raw = SimRawSink(budget, log)
    buffered = io.BufferedWriter(raw, buffer_size=max(1, bufsize))
    if shape == 'std':
        return StdShape(buffered), raw, buffered
    return buffered, raw, buffered
