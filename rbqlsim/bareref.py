# Reference server in a bare interpreter.
#
# "Alone in a fresh interpreter" is the reference C16 compares with. The pool workers preload pandas and sqlite3 (so that
# forks are cheap), and a fork of a worker inherits that: a query whose behaviour depends on which optional modules happen
# to be imported already would look the same in the reference and in the history. This server is a separately started
# python process that has imported the tree's rbql package and nothing it does not need; every request is executed in a
# fork of it (so the server itself never runs a query either) and answered as one JSON line.

import json
import os
import select
import subprocess
import sys
import traceback

from . import core

_srv = None    # (owner pid, Popen, receive buffer)


def serve():
    """Entry point of the bare process."""
    from . import fsseam
    from .forkrun import fork_call
    from .props import c16
    root = os.environ.get('RBQLSIM_ROOT')
    if root:
        fsseam._root = (-1, root)        # the batch parent owns (and removes) the root; this process only uses it
    core.load_tree()
    fsseam.new_process_scratch()
    out = sys.stdout
    for line in sys.stdin:
        line = line.strip()
        if not line:
            continue
        try:
            op = json.loads(line)
            res = {'ok': fork_call(c16.child_single, op)}
        except BaseException:
            res = {'harness_exc': traceback.format_exc()}
        out.write(json.dumps(res, default=core._default) + '\n')
        out.flush()


def start():
    global _srv
    if _srv is not None and _srv[0] == os.getpid() and _srv[1].poll() is None:
        return
    from . import fsseam
    env = dict(os.environ)
    env['RBQLSIM_BARE'] = '1'
    env['RBQLSIM_ROOT'] = fsseam.ensure_root()
    env['PYTHONDONTWRITEBYTECODE'] = '1'
    code = 'import sys; sys.path.insert(0, %r); from rbqlsim import bareref; bareref.serve()' % (core.VERIF,)
    p = subprocess.Popen([sys.executable, '-c', code], stdin=subprocess.PIPE, stdout=subprocess.PIPE, stderr=subprocess.DEVNULL, env=env, bufsize=0)
    _srv = (os.getpid(), p, bytearray())


def call(op, timeout_s=150):
    global _srv
    start()
    _pid, p, buf = _srv
    data = (json.dumps(op, ensure_ascii=True, default=core._default) + '\n').encode('ascii')
    try:
        p.stdin.write(data)
        p.stdin.flush()
    except (BrokenPipeError, OSError):
        _srv = None
        raise core.HarnessError('bare reference server went away')
    fd = p.stdout.fileno()
    while True:
        nl = buf.find(b'\n')
        if nl != -1:
            line = bytes(buf[:nl])
            del buf[:nl + 1]
            res = json.loads(line.decode('utf-8'))
            if 'harness_exc' in res:
                raise core.HarnessError('exception inside the bare reference server:\n' + res['harness_exc'])
            return res['ok']
        ready, _, _ = select.select([fd], [], [], timeout_s)
        if not ready:
            p.kill()
            _srv = None
            raise core.HarnessError('bare reference server timed out')
        chunk = os.read(fd, 1 << 16)
        if not chunk:
            _srv = None
            raise core.HarnessError('bare reference server closed its output')
        buf += chunk


def stop():
    global _srv
    if _srv is not None and _srv[0] == os.getpid():
        try:
            _srv[1].stdin.close()
            _srv[1].wait(timeout=5)
        except Exception:
            try:
                _srv[1].kill()
            except Exception:
                pass
    _srv = None
