# Core of the deterministic simulator: tree loading, scenario digests, event log.
#
# Everything here is a pure function of its arguments: no PRNG, no clock (the
# runner measures wall time for evidence only, never for decisions).

import hashlib
import json
import re
import os
import sys

REPO = os.environ.get('RBQL_REPO', '/repo')
VERIF = os.path.dirname(os.path.dirname(os.path.abspath(__file__)))

_tree = None


class Tree(object):
    """The modules of the tree under test, imported from RBQL_REPO (never site-packages)."""
    pass


def load_tree():
    global _tree
    if _tree is not None:
        return _tree
    pkg_root = os.path.join(REPO, 'rbql-py')
    if sys.path[0] != pkg_root:
        sys.path.insert(0, pkg_root)
    for name in list(sys.modules):
        if name == 'rbql' or name.startswith('rbql.'):
            del sys.modules[name]
    import warnings
    warnings.filterwarnings('ignore', category=SyntaxWarning)
    import rbql
    from rbql import rbql_engine, rbql_csv, csv_utils, rbql_main, rbql_sqlite, rbql_pandas
    real = os.path.realpath(rbql.__file__)
    if not real.startswith(os.path.realpath(pkg_root) + os.sep):
        raise HarnessError('rbql imported from %s, not from the tree %s' % (real, pkg_root))
    if not os.environ.get('RBQLSIM_BARE'):
        try:
            import pandas  # preload: forked helper processes must not pay the import
        except ImportError:
            pandas = None
        import sqlite3
    t = Tree()
    t.rbql = rbql
    t.engine = rbql_engine
    t.csv = rbql_csv
    t.csv_utils = csv_utils
    t.main = rbql_main
    t.sqlite = rbql_sqlite
    t.pandas = rbql_pandas
    _tree = t
    return t


class HarnessError(Exception):
    """Anything that is the machinery's own fault. Never reported as a VIOLATION."""
    pass


def canon(obj):
    return json.dumps(obj, sort_keys=True, ensure_ascii=True, separators=(',', ':'), default=_default)


def _default(o):
    if isinstance(o, bytes):
        return {'__bytes__': o.hex()}
    if isinstance(o, (set, frozenset)):
        return sorted(o)
    if isinstance(o, tuple):
        return list(o)
    return repr(o)


_UNKNOWN_COLUMN = re.compile(r'Unable to find column "[^"]*"')


def hash_neutral(x):
    """View used for determinism digests only (never by an oracle): the engine picks which of several unknown `a.name`
    columns it reports by iterating over a set of strings, so that one word of the message follows PYTHONHASHSEED."""
    if isinstance(x, str):
        return _UNKNOWN_COLUMN.sub('Unable to find column "?"', x)
    if isinstance(x, (list, tuple)):
        return [hash_neutral(v) for v in x]
    if isinstance(x, dict):
        return {k: hash_neutral(v) for k, v in x.items()}
    return x


def digest(obj):
    return hashlib.sha256(canon(obj).encode('ascii')).hexdigest()


def key64(obj):
    return int.from_bytes(hashlib.sha256(canon(obj).encode('ascii')).digest()[:8], 'big')


class EventLog(object):
    """Append-only log of seam events with a global sequence number.

    Logging takes no decisions: it never draws from a PRNG and never reads a clock.
    """

    def __init__(self, cap=200000):
        self.events = []
        self.cap = cap

    def add(self, actor, op, *args):
        if len(self.events) >= self.cap:
            raise EventCap()
        self.events.append((len(self.events), actor, op) + args)
        return len(self.events) - 1

    def count(self, actor=None, op=None):
        n = 0
        for e in self.events:
            if (actor is None or e[1] == actor) and (op is None or e[2] == op):
                n += 1
        return n

    def __len__(self):
        return len(self.events)


class EventCap(BaseException):
    """Raised when a run exceeds its step cap. BaseException so that the code under
    test cannot swallow it with `except Exception`."""
    pass


def bump(counters, name, n=1):
    counters[name] = counters.get(name, 0) + n


def merge_counters(dst, src):
    for k, v in src.items():
        dst[k] = dst.get(k, 0) + v


def compositions_from_mask(n, mask):
    """Partition of n items into pieces; bit i of mask set = boundary after item i (0 <= i < n-1)."""
    pieces = []
    cur = 1
    for i in range(n - 1):
        if (mask >> i) & 1:
            pieces.append(cur)
            cur = 1
        else:
            cur += 1
    if n > 0:
        pieces.append(cur)
    return pieces


def boundaries(pieces):
    out = []
    pos = 0
    for p in pieces[:-1]:
        pos += p
        out.append(pos)
    return out
