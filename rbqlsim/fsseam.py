# File / process-global seam: tracked open() injected into the tree's modules, replaced
# sys.std*, HOME pointing at an empty directory, a private scratch directory per worker.

import io
import os
import shutil
import sys
import tempfile
import builtins

from . import core
from .streams import StdShape, SimRawSink

_root = None      # scratch root of this batch (created by the batch's parent process, removed by it)
_scratch = None   # private directory of this worker process; forked helper children inherit and reuse it


def _base():
    return '/dev/shm' if os.path.isdir('/dev/shm') and os.access('/dev/shm', os.W_OK) else None


def ensure_root():
    global _root
    if _root is None:
        _root = (os.getpid(), tempfile.mkdtemp(prefix='rbqlsim-', dir=_base()))
    return _root[1]


def cleanup_root():
    """Called by the process that created the root (bin/check, selftests) before it exits."""
    global _root, _scratch
    if _root is not None and _root[0] == os.getpid():
        shutil.rmtree(_root[1], ignore_errors=True)
        _root = None
        _scratch = None


def new_process_scratch():
    """Called at the start of every pool worker: a fresh private directory under the batch root."""
    global _scratch
    d = tempfile.mkdtemp(prefix='p%d-' % os.getpid(), dir=ensure_root())
    os.mkdir(os.path.join(d, 'home'))
    os.mkdir(os.path.join(d, 'w'))
    _scratch = d
    return d


def scratch_dir():
    if _scratch is None:
        return new_process_scratch()
    return _scratch


def work_dir():
    return os.path.join(scratch_dir(), 'w')


def reset_work_dir():
    w = work_dir()
    for name in os.listdir(w):
        p = os.path.join(w, name)
        if os.path.isdir(p) and not os.path.islink(p):
            shutil.rmtree(p, ignore_errors=True)
        else:
            try:
                os.unlink(p)
            except OSError:
                pass
    return w


class OpenTracker(object):
    """Replacement for the builtin open() inside the tree's modules. Records every handle with a
    strong reference (so refcounting cannot close a leaked handle for the code under test) and can
    substitute a simulated stream for a given path."""

    def __init__(self):
        self.handles = []       # (path, mode, handle)
        self.substitutes = {}   # path -> callable(mode) -> stream

    def __call__(self, path, mode='r', *args, **kwargs):
        sub = self.substitutes.get(path)
        if sub is not None:
            h = sub(mode)
        else:
            h = builtins.open(path, mode, *args, **kwargs)
        self.handles.append((path, mode, h))
        return h

    def leaked(self):
        out = []
        for path, mode, h in self.handles:
            try:
                closed = h.closed
            except Exception:
                closed = True
            if not closed:
                out.append([os.path.basename(str(path)), mode])
        return out

    def modes_for(self, path):
        return [m for p, m, _h in self.handles if p == path]

    def close_all(self):
        for _p, _m, h in self.handles:
            try:
                h.close()
            except Exception:
                pass


def tree_modules_with_open(t):
    return [t.csv, t.sqlite, t.main]


class ProcessSeam(object):
    """Context manager: replaces sys.stdin/stdout/stderr/argv, HOME and the modules' open()."""

    def __init__(self, t, tracker=None, stdin=None, stdout=None, argv=None):
        self.t = t
        self.tracker = tracker or OpenTracker()
        self.stdin = stdin
        self.stdout = stdout
        self.stderr = io.StringIO()
        self.argv = argv
        self.unraisable = []

    def __enter__(self):
        self.saved = (sys.stdin, sys.stdout, sys.stderr, sys.argv, os.environ.get('HOME'), sys.unraisablehook)
        self.default_out_raw = None
        if self.stdout is None:
            self.default_out_raw = SimRawSink(None)
            self.stdout = StdShape(io.BufferedWriter(self.default_out_raw, buffer_size=8192))
        if self.stdin is None:
            self.stdin = StdShape(io.BufferedReader(io.BytesIO(b'')))
        sys.stdin, sys.stdout, sys.stderr = self.stdin, self.stdout, self.stderr
        if self.argv is not None:
            sys.argv = list(self.argv)
        os.environ['HOME'] = os.path.join(scratch_dir(), 'home')
        sys.unraisablehook = lambda u: self.unraisable.append(type(u.exc_value).__name__)
        for m in tree_modules_with_open(self.t):
            m.open = self.tracker
        return self

    def __exit__(self, *exc):
        for m in tree_modules_with_open(self.t):
            try:
                del m.open
            except AttributeError:
                pass
        sys.stdin, sys.stdout, sys.stderr, sys.argv = self.saved[0], self.saved[1], self.saved[2], self.saved[3]
        if self.saved[4] is None:
            os.environ.pop('HOME', None)
        else:
            os.environ['HOME'] = self.saved[4]
        # keep our hook a little longer: objects of this run die when the caller drops them
        return False

    def restore_hook(self):
        sys.unraisablehook = self.saved[5]
