# Run a function in a forked copy of this (pristine) process and get its JSON result back.
# Used so that the harness process itself never executes a query: every reference and every
# history starts from an interpreter in which no query has ever run.

import gc
import json
import os
import select
import signal
import sys
import traceback

from . import core

_frozen = False


def fork_call(fn, arg, timeout_s=120):
    r, w = os.pipe()
    sys.stdout.flush()
    sys.stderr.flush()
    global _frozen
    if not _frozen:
        # keep the collector from touching (and so copying) every inherited page in each child
        gc.collect()
        gc.freeze()
        _frozen = True
    pid = os.fork()
    if pid == 0:
        code = 0
        try:
            gc.disable()
            os.close(r)
            try:
                res = {'ok': fn(arg)}
            except BaseException:
                res = {'harness_exc': traceback.format_exc()}
            data = json.dumps(res, default=core._default).encode('utf-8')
            with os.fdopen(w, 'wb') as f:
                f.write(data)
        except BaseException:
            code = 3
        finally:
            os._exit(code)
    os.close(w)
    chunks = []
    try:
        while True:
            ready, _, _ = select.select([r], [], [], timeout_s)
            if not ready:
                os.kill(pid, signal.SIGKILL)
                os.waitpid(pid, 0)
                raise core.HarnessError('forked run timed out after %ss' % timeout_s)
            b = os.read(r, 1 << 16)
            if not b:
                break
            chunks.append(b)
    finally:
        os.close(r)
    _, status = os.waitpid(pid, 0)
    data = b''.join(chunks)
    if not data:
        raise core.HarnessError('forked run died without a result (status %r)' % (status,))
    res = json.loads(data.decode('utf-8'))
    if 'harness_exc' in res:
        raise core.HarnessError('exception inside forked run:\n' + res['harness_exc'])
    return res['ok']
