# C20 - the JavaScript stream reader is independent of chunk boundaries.
#
# The simulator owns a real Node stream.Readable whose _read() is driven by a seeded plan: the
# composition of the bytes into chunks, a delivery-timing class per chunk (pushed synchronously
# inside _read, from process.nextTick, from a resolved-promise continuation, from setImmediate),
# the consumer pacing (get_all_records / manual loop with event-loop turns between calls /
# get_header first / a full rbql.query) and highWaterMark.
# Oracles: (1) outcome == bulk reading (csv_path mode) of the same bytes by the real reader;
#          (2) bounded liveness: after the producer pushed EOF every pending get_record settles
#              within 8 event-loop turns (turn counter, no clock).

from .. import core, jsbridge, fsseam
from ..core import bump
from . import c12

ID = 'C20'
LEVEL = 'exploration'
TIERS = {
    'quick': {'runs': 30000, 'deadline_s': 90, 'chunk': 100},
    'thorough': {'runs': 800000, 'deadline_s': 1200, 'chunk': 300},
}
RULE = ('one run = one sampled (bytes, dialect, encoding, pacing, timing pattern, highWaterMark) with a set of chunkings: every composition of the bytes into chunks when there '
        'are <= 7 bytes, else 48 sampled compositions (always including one-byte chunks and the single chunk); an evaluation is one chunking delivered through a real '
        'stream.Readable to the real CSVRecordIterator and compared with bulk reading. Non-trivial = >= 2 chunks and the content has a line break, quote or multi-byte character; '
        'distinct = distinct (scenario key, chunking). A small fraction of runs reads a > 64 KiB file through fs.createReadStream; about one run in eight keeps two readers alive at once (rbql.query with a JOIN table that is itself a planned stream).')
COMPONENTS = {
    'real': ['rbql_csv.js CSVRecordIterator (stream and bulk paths, RecordQueue, preread/pause/resume)', 'csv_utils.js split_lines / smart_split / MultilineRecordAggregator',
             'Node stream.Readable state machine, util.TextDecoder', 'fs.createReadStream + fs.readFile in the large-file scenario'],
    'stub': ['the producer behind Readable._read (PlannedReadable in js/driver.js)', 'the consumer loop'],
}
ASSUMPTIONS = [
    'bulk reading (csv_path mode) of the same bytes by the same reader is the reference, as the property states',
    'valid UTF-8 (or any bytes under the binary encoding) must give the same records, warnings and messages as bulk reading; for content that is not valid UTF-8 (a cut or stray byte at the very end) only the fact and the class of the rejection are compared',
    'liveness is counted in event-loop turns after the producer pushed EOF; stream error events are not simulated',
]

TIMINGS = ['sync', 'tick', 'micro', 'immediate']


def gen_pace(rng, has_header):
    mode = rng.choice(['all', 'all', 'manual', 'manual', 'query'])
    pace = {'mode': mode, 'gaps': [], 'header_first': True if has_header else rng.random() < 0.3}
    if mode == 'manual':
        pace['gaps'] = [rng.choice([0, 0, 1, 2]) for _ in range(rng.choice([1, 2, 3]))]
    if mode == 'query':
        pace['header_first'] = False
        # only queries that read the whole input: a bounded query legitimately stops before later warnings / errors are met
        pace['query'] = rng.choice(['select *', 'select *', 'select a1, NR', 'select * where NR != 2', 'select distinct a1'])
    return pace


def generate(rng, tier, idx):
    sc = {'kind': 'batch'}
    d = c12.gen_dialect(rng)
    d.pop('line_mode')
    if d['comment_prefix'] == 'a':
        d['comment_prefix'] = '#'
    sc.update(d)
    sc['encoding'] = rng.choice(['utf-8', 'utf-8', 'utf-8', 'binary'])
    r = rng.random()
    if r < 0.04:
        # large file through the real fs.createReadStream: multi-byte characters straddle 64 KiB offsets
        unit = c12.gen_text(rng, rng.choice([5, 9, 33]))
        if not any(ord(ch) > 127 for ch in unit):
            unit += rng.choice(['é', '€', '\U0001F600', '\ufffd'])
        target = rng.choice([65536 + 10, 2 * 65536 + 7, 3 * 65536])
        blen = len(unit.encode('utf-8'))
        text = unit * (target // blen + 1)
        sc['text'] = text
        sc['mode'] = 'fs_stream'
        sc['hwm'] = rng.choice([None, None, 1024, 65536, 4099])
        sc['pace'] = gen_pace(rng, sc['has_header'])
        return sc
    if r < 0.0415:
        # very many short records (66 000 - 140 000) handed over in one piece or in a few large same-tick chunks: sizes at which
        # per-record work done with spread calls, recursion or repeated array copies starts to matter
        line = rng.choice(['1\n', 'a\r\n', '7\n', 'x,y\n'])
        count = rng.choice([66000, 131072 + 100, 131072 + 100, 140000])
        text = line * count + rng.choice(['', 'end'])
        sc['text'] = text
        sc['mode'] = 'stream'
        sc['comment_prefix'] = None
        sc['pace'] = {'mode': rng.choice(['all', 'all', 'manual']), 'gaps': [], 'header_first': True if sc['has_header'] else rng.random() < 0.3}
        sc['timing_pattern'] = [rng.choice(['sync', 'sync', 'tick', 'immediate'])]
        sc['hwm'] = rng.choice([None, None, 1048576])
        nb = len(text.encode('utf-8'))
        parts = {(nb,)}
        for size in rng.sample([65536, 65537, 262144, 100000, 16384], 2):
            parts.add(tuple([size] * (nb // size) + ([nb % size] if nb % size else [])))
        sc['partitions'] = sorted(list(p) for p in parts)
        sc['many_records'] = True
        return sc
    if r < 0.10:
        # a few KiB delivered as a mixture of tiny and large (>= 1 KiB) chunks: what a pipe does with `(head -1 f; tail -n +2 f)`
        unit = c12.gen_text(rng, rng.choice([7, 23, 60]))
        if '\n' not in unit and '\r' not in unit:
            unit += rng.choice(['\n', '\r\n'])
        text = (unit * (rng.choice([2500, 4000, 6000]) // max(1, len(unit)) + 1))
        sc['text'] = text
        sc['mode'] = 'stream'
        sc['pace'] = gen_pace(rng, sc['has_header'])
        sc['timing_pattern'] = [rng.choice(TIMINGS) for _ in range(rng.choice([1, 2, 3]))]
        sc['hwm'] = rng.choice([None, None, 16, 1024])
        nb = len(text.encode('utf-8'))
        parts = set()
        for _ in range(10):
            pieces = []
            left = nb
            while left > 0:
                k = rng.choice([1, 2, 3, 10, 100, 900, 1023, 1024, 1025, 1500, 2048])
                k = min(k, left)
                pieces.append(k)
                left -= k
            parts.add(tuple(pieces))
        parts.add((nb,))
        sc['partitions'] = sorted(list(p) for p in parts)
        return sc
    n = rng.choice([0, 1, 2, 3, 4, 4, 5, 5, 6, 6, 7, 8, 10, 12])
    text = c12.gen_text(rng, n, ascii_only=rng.random() < 0.35)
    if rng.random() < 0.15:
        text = '﻿' + text
    sc['text'] = text
    sc['mode'] = 'stream'
    sc['pace'] = gen_pace(rng, sc['has_header'])
    if rng.random() < 0.12:
        # two readers alive at once: rbql.query with a JOIN table that is itself a planned stream
        sc['pace'] = {'mode': 'query', 'gaps': [], 'header_first': False, 'query': rng.choice(['select a1, b1 left join B on a1 == b1', 'select * join B on a1 == b1', 'select a1 left join B on NR == bNR'])}
        jt = c12.gen_text(rng, rng.choice([2, 4, 6, 9]))
        if not any(ord(ch) > 127 for ch in jt) and rng.random() < 0.7:
            jt += rng.choice(['é', '€', '\U0001F600', '\ufffd'])
        sc['join_text'] = jt
        jn = len(jt.encode('utf-8'))
        sc['join_partitions'] = sorted(set(tuple(c12.random_composition(rng, jn)) for _ in range(5)) | {tuple([1] * jn), (jn,)})
        sc['join_partitions'] = [list(p) for p in sc['join_partitions']]
    sc['timing_pattern'] = [rng.choice(TIMINGS) for _ in range(rng.choice([1, 1, 2, 3, 4]))]
    sc['hwm'] = rng.choice([None, None, 1, 2, 16])
    if rng.random() < 0.07 and sc['pace']['mode'] != 'query':
        # input that is not valid UTF-8 at its very end (a character cut short by a truncated file, or a stray byte), often right
        # after a line break: every delivery must report what bulk reading reports
        if rng.random() < 0.6 and text and text[-1] not in '\r\n':
            sc['text'] = text = text + rng.choice(['\n', '\r\n'])
        sc['tail_hex'] = rng.choice(['e2', 'e282', 'f09f98', 'c3', 'ff', '80', 'f0'])
    nb = len(scenario_bytes(sc))
    if nb <= 7:
        sc['partitions'] = 'all'
    else:
        parts = set()
        parts.add((nb,))
        parts.add(tuple([1] * nb))
        for _ in range(48):
            parts.add(tuple(c12.random_composition(rng, nb)))
        sc['partitions'] = sorted(list(p) for p in parts)
    return sc


def scenario_bytes(sc):
    # tail_hex: bytes that are NOT valid UTF-8 (a character cut short, a stray continuation or 0xff byte) appended to the encoded text
    return sc['text'].encode('utf-8') + bytes.fromhex(sc.get('tail_hex') or '')


def base_req(sc):
    return {'kind': 'read', 'encoding': sc['encoding'], 'delim': sc['delim'], 'policy': sc['policy'], 'has_header': sc['has_header'],
            'comment_prefix': sc['comment_prefix'], 'pace': sc['pace'], 'hwm': sc.get('hwm')}


def plan_for(data, pieces, pattern):
    plan = []
    pos = 0
    for i, p in enumerate(pieces):
        plan.append({'hex': data[pos:pos + p].hex(), 'timing': pattern[i % len(pattern)]})
        pos += p
    return plan


def view(resp, two_readers=False, invalid_input=False):
    if resp.get('uncaught_exceptions'):
        # thrown out of an event handler of the reader: a program without a process-level handler dies here
        return ['uncaught', resp['uncaught_exceptions'][0]]
    if invalid_input and resp['outcome'][0] == 'err':
        # input that is wrong in more than one way (bad bytes at the end, unbalanced quotes before them): which defect is met
        # first depends on the delivery, and each is a correct rejection. That it is rejected, and how (class), must not.
        return ['err', resp['outcome'][1], '<any message>']
    if resp['outcome'] == ['ok']:
        return ['ok', resp['records'], resp['header'], resp['warnings']]
    oc = resp['outcome']
    if two_readers and oc[0] == 'err':
        # with two tables several things can be wrong at once (quoting in either table, header modes); which one is reported
        # first depends on delivery order, and each is a correct rejection: compare the error class only
        return ['err', oc[1], 'Unable to decode' if 'decode' in oc[2] else '<any other message>']
    return oc


def iter_partitions(sc, nb):
    if sc['kind'] == 'single':
        return [list(sc['pieces'])]
    if sc['partitions'] == 'all':
        return [core.compositions_from_mask(nb, m) for m in range(1 << max(0, nb - 1))]
    return sc['partitions']


def execute(sc):
    core.load_tree()
    counters = {}
    data = scenario_bytes(sc)
    nb = len(data)
    res = {'verdict': 'ok', 'oracle': None, 'counters': counters, 'evals': 0, 'nontrivial': 0, 'steps': 0}
    key_sc = {k: v for k, v in sc.items() if k not in ('partitions', 'kind', 'pieces', 'join_pieces')}
    res['key'] = core.key64(key_sc)
    tmp_dir = fsseam.work_dir()
    common = base_req(sc)
    common['tmp_dir'] = tmp_dir
    jdata = sc['join_text'].encode('utf-8') if sc.get('join_text') is not None else None
    if jdata is not None:
        common['join_hex'] = jdata.hex()
    slow_ok = 400 if sc.get('many_records') else 60      # a reader that is merely slow on very many records is not this property's business
    bulk = jsbridge.call(dict(common, mode='bulk', hex=data.hex()), timeout_s=slow_ok)
    res['evals'] += 1
    two = sc.get('join_text') is not None
    invalid = bool(sc.get('tail_hex')) and sc['encoding'] == 'utf-8'
    ref = view(bulk, two, invalid)
    interesting = c12.content_is_interesting(sc)
    if bulk.get('unhandled_rejections'):
        bump(counters, 'probe.unhandled_rejection_bulk')
    if ref[0] == 'err' and ref[1] == 'RbqlIOHandlingError' and 'decode' in ref[2] and not sc.get('tail_hex'):
        res.update(verdict='violation', oracle='valid_utf8_rejected', detail={'mode': 'bulk', 'outcome': ref}, case=dict(sc))
        res['digest'] = core.digest([ref])
        return res
    if sc['mode'] == 'fs_stream':
        r = jsbridge.call(dict(common, mode='fs_stream', hex=data.hex()), timeout_s=120)
        res['evals'] += 1
        bump(counters, 'sched.fs_createReadStream_large_file')
        out = view(r)
        res['nontrivial'] = 1
        res['steps'] = r['counters']['turn']
        if out != ref:
            res.update(verdict='violation', oracle=classify(out, sc), detail=diff_detail(ref, out, None), case=dict(sc))
        res['digest'] = core.digest([ref[0], out[0], len(str(out))])
        return res
    parts = iter_partitions(sc, nb)
    requests = []
    pattern = sc['timing_pattern']
    for pi, pieces in enumerate(parts):
        r = {'mode': 'stream', 'plan': plan_for(data, pieces, pattern)}
        if jdata is not None:
            jp = sc['join_partitions'][pi % len(sc['join_partitions'])] if sc['kind'] != 'single' else sc['join_pieces']
            r['join_plan'] = plan_for(jdata, jp, pattern[::-1])
        requests.append(r)
    outs = []
    B = 64
    for i in range(0, len(requests), B):
        rr = jsbridge.call({'kind': 'batch', 'common': common, 'requests': requests[i:i + B]}, timeout_s=slow_ok)
        outs.extend(rr['responses'])
    digest_parts = [ref]
    for pieces, r in zip(parts, outs):
        res['evals'] += 1
        res['steps'] += r['counters']['turn'] + r['counters']['read_calls']
        out = view(r, two, invalid)
        digest_parts.append(out[0])
        bs = core.boundaries(pieces)
        if any((data[b] & 0xC0) == 0x80 for b in bs):
            bump(counters, 'probe.multibyte_split')
        if any(data[b - 1] == 13 and data[b] == 10 for b in bs):
            bump(counters, 'probe.crlf_split_across_chunks')
        if data[:3] == b'\xef\xbb\xbf' and any(b < 3 for b in bs):
            bump(counters, 'probe.bom_split')
        if len(pieces) >= 2 and interesting:
            res['nontrivial'] += 1
        if r.get('unhandled_rejections'):
            bump(counters, 'probe.unhandled_rejection_stream')
        if out != ref:
            case = {k: v for k, v in sc.items() if k not in ('partitions', 'join_partitions')}
            case['kind'] = 'single'
            case['pieces'] = list(pieces)
            if jdata is not None:
                case['join_pieces'] = sc['join_partitions'][parts.index(pieces) % len(sc['join_partitions'])] if sc['kind'] != 'single' else sc['join_pieces']
            res.update(verdict='violation', oracle=classify(out, sc), detail=diff_detail(ref, out, pieces), case=case)
            break
    for t in pattern:
        bump(counters, 'sched.timing_' + t)
    bump(counters, 'sched.pace_' + sc['pace']['mode'])
    if jdata is not None:
        bump(counters, 'sched.two_readers_join_stream')
    if sc.get('many_records'):
        bump(counters, 'sched.more_than_65536_records_in_one_handover')
    if sc.get('tail_hex'):
        bump(counters, 'fault.input_ends_in_invalid_utf8')
    if sc['text'][:1] == '﻿':
        bump(counters, 'probe.bom_present')
    if ref[0] == 'ok' and isinstance(ref[1], list) and sc['policy'] == 'quoted_rfc' and any(isinstance(f, str) and '\n' in f for rec in ref[1] for f in rec):
        bump(counters, 'probe.rfc_record_spans_lines')
    res['digest'] = core.digest(digest_parts)
    return res


def confirm(case, result):
    """A violation must survive a fresh Node process: the driver is reused between cases, so state that the code under test
    keeps at module level could otherwise make a case depend on the cases before it (not replayable, hence not reportable)."""
    jsbridge.stop()
    again = execute(case)
    return again['verdict'] == 'violation' and again['oracle'] == result['oracle']


def classify(out, sc=None):
    if out[0] == 'hang':
        return 'hang'
    if sc is not None and sc.get('tail_hex'):
        return 'chunking'      # the input is not valid UTF-8: whatever differs from bulk reading is a delivery dependence
    if out[0] == 'err' and out[1] == 'RbqlIOHandlingError' and 'decode' in out[2]:
        return 'valid_utf8_rejected'
    return 'chunking'


def diff_detail(ref, out, pieces):
    def short(x):
        s = core.canon(x)
        return s if len(s) < 600 else s[:600] + '...'
    return {'bulk': short(ref), 'stream': short(out), 'pieces': pieces}


def signature(sc, result):
    bom = 'bom' if sc['text'][:1] == '﻿' else 'nobom'
    return 'C20/%s/%s/%s' % (result['oracle'], sc['encoding'], bom)


def sample_view(sc):
    v = dict(sc)
    if isinstance(v.get('partitions'), list) and len(v['partitions']) > 3:
        v['partitions'] = v['partitions'][:3] + ['... %d chunkings' % len(sc['partitions'])]
    if len(v['text']) > 80:
        v['text'] = v['text'][:80] + '...(%d chars)' % len(sc['text'])
    return v


def shrinks(sc):
    if sc.get('mode') != 'stream' or sc['kind'] != 'single':
        return
    text = sc['text']
    pieces = list(sc['pieces'])

    def with_text(nt, drop_tail=False):
        c = dict(sc)
        c['text'] = nt
        if drop_tail:
            c.pop('tail_hex', None)
        n = len(scenario_bytes(c))
        bs = [b for b in core.boundaries(pieces) if b < n]
        np_, prev = [], 0
        for b in bs:
            np_.append(b - prev)
            prev = b
        if n - prev > 0:
            np_.append(n - prev)
        c['pieces'] = np_
        return c
    if sc.get('tail_hex'):
        yield with_text(text, drop_tail=True)
    size = len(text) // 2
    while size >= 2:
        for i in range(0, len(text), size):
            yield with_text(text[:i] + text[i + size:])
        size //= 2
    for i in range(len(text)):
        yield with_text(text[:i] + text[i + 1:])
    for i in range(len(pieces) - 1):
        c = dict(sc)
        c['pieces'] = pieces[:i] + [pieces[i] + pieces[i + 1]] + pieces[i + 2:]
        yield c
    if sc['timing_pattern'] != ['sync']:
        c = dict(sc)
        c['timing_pattern'] = ['sync']
        yield c
    if sc['pace'] != {'mode': 'all', 'gaps': [], 'header_first': bool(sc['has_header'])}:
        c = dict(sc)
        c['pace'] = {'mode': 'all', 'gaps': [], 'header_first': bool(sc['has_header'])}
        yield c
    for k, v in (('hwm', None), ('comment_prefix', None), ('has_header', False)):
        if sc.get(k) != v:
            c = dict(sc)
            c[k] = v
            if k == 'has_header':
                c['pace'] = dict(sc['pace'])
            yield c
