# C12 - CSV reading depends only on content, never on how the stream is chunked.
#
# The simulator owns the delivery schedule of the input stream: which pieces each read()
# returns (text level, where RBQL's own CR/LF look-ahead runs) or each raw readinto()
# returns (byte level, under CPython's BufferedReader + TextIOWrapper created by
# encode_input_stream), the reader's chunk_size knob and the buffer sizes.
# Oracles: (1) outcome == outcome of the whole-delivery run of the same real reader,
#          (2) outcome == a small reference model of record assembly.

import re

from .. import core
from ..core import bump
from ..streams import SimTextSource, make_byte_input

ID = 'C12'
LEVEL = 'exploration'
IN_PROCESS = True          # scenarios run inside the worker; violations are confirmed in a pristine interpreter (rbqlsim/zygote.py)
COLD_START_EVERY = 25      # and one run in 25 is executed there in the first place
TIERS = {
    'quick': {'runs': 25000, 'deadline_s': 75, 'chunk': 100},
    'thorough': {'runs': 1200000, 'deadline_s': 900, 'chunk': 400},
}
RULE = ('one run = one sampled (content, dialect, level) with a set of delivery schedules: every composition of the content '
        'into successive reads when it has <= 8 symbols (text level) / <= 7 bytes (byte level), else 96 sampled compositions, '
        'each crossed with 3 sampled chunk_size values; an evaluation is one (content, dialect, schedule, chunk_size) read by the real '
        'CSVRecordIterator. A case is non-trivial when the reader needed >= 2 reads and the content has a line break, a quote or a '
        'multi-byte character; distinct = distinct (scenario key, schedule, chunk_size).')
COMPONENTS = {
    'real': ['rbql_csv.CSVRecordIterator (all of get_record/get_row_simple/get_row_rfc/_read_until_found/_get_row_from_buffer)',
             'rbql_csv.encode_input_stream', 'csv_utils.extract_line_from_data / smart_split',
             'CPython io.BufferedReader, io.TextIOWrapper and incremental decoders (byte level)'],
    'stub': ['text stream (SimTextSource.read)', 'raw byte source under BufferedReader (SimRawSource.readinto)', 'sys.stdin-shaped wrapper exposing .buffer'],
}
ASSUMPTIONS = [
    'field splitting (csv_utils.smart_split) is trusted here; it is the subject of C11',
    'the whole-delivery run of the real reader is the reference for schedule independence; the record-assembly model is the reference for the listed line rules',
    'sampling: texts, dialects and (for longer inputs) schedules are sampled from a seeded PRNG, not enumerated',
    'content that is not valid UTF-8: that it is rejected, and the decode message, must not depend on the schedule; how many records were handed out before the rejection, '
    'and which defect is reported when the content is also mis-quoted, legitimately may (the byte stream is decoded one raw read at a time)',
]

# besides the property's own symbols: characters that other line-splitting conventions (str.splitlines, Unicode) treat as line
# breaks but RBQL must not (VT, FF, FS, NEL, LS), NUL, and the replacement character
ALPHABET = ['a', '"', ',', '\n', '\r', '#', ' ', ';', 'b', 'é', '€', '\U0001F600', '﻿', '\t', '\ufffd', '\x0b', '\x0c', '\x1c', '\x85', '\u2028', '\x00']
WEIGHTS = [10, 9, 8, 9, 9, 4, 3, 2, 3, 2, 2, 1, 1, 1, 1, 1, 1, 1, 1, 1, 1]
SNIPPETS = ['\r\n', '""', '"\n"', '"\r\n', '\n#', '\r#', 'a,b', '",', ',"', '\n\n', '\r\r', '"a\nb"', '#x\n', '﻿', '\r\n\r\n', '"\r"', 'e\u0301', 'a\u0308', '\u1100\u1161', '\u0301']      # (the last four: base + combining mark, Hangul jamo L+V, a lone combining mark: text that Unicode normalisation would rewrite)
ASCII_ALPHABET = ['a', '"', ',', '\n', '\r', '#', ' ']


def gen_text(rng, n, ascii_only=False):
    out = ''
    while len(out) < n:
        if rng.random() < 0.3:
            s = rng.choice(SNIPPETS)
            if ascii_only and not s.isascii():
                continue
            out += s
        elif ascii_only:
            out += rng.choice(ASCII_ALPHABET)
        else:
            out += rng.choices(ALPHABET, WEIGHTS)[0]
    return out[:n]


def gen_dialect(rng):
    policy = rng.choice(['simple', 'quoted', 'quoted_rfc', 'quoted_rfc', 'whitespace', 'monocolumn', 'quoted'])
    if policy == 'whitespace':
        delim = ' '
    elif policy == 'monocolumn':
        delim = ''
    else:
        delim = rng.choice([',', ',', ',', ';', '\t', 'a', ',,'])
    return {
        'policy': policy,
        'delim': delim,
        'comment_prefix': rng.choice([None, None, '#', '#', '##', 'a']),
        'has_header': rng.random() < 0.4,
        'line_mode': rng.random() < 0.08,
    }


def random_composition(rng, n):
    if n == 0:
        return []
    style = rng.random()
    if style < 0.15:
        return [1] * n
    p = rng.choice([0.1, 0.3, 0.5, 0.8])
    mask = 0
    for i in range(n - 1):
        if rng.random() < p:
            mask |= 1 << i
    return core.compositions_from_mask(n, mask)


def generate(rng, tier, idx):
    r = rng.random()
    sc = {'kind': 'batch'}
    sc.update(gen_dialect(rng))
    if tier == 'thorough' and rng.random() < 0.3:
        # sweep: the idx-th text over the property's 7-symbol alphabet (lengths 0..6 in turn), every composition, every chunk size;
        # the dialect is still sampled. Over a thorough batch this visits every text up to length 5 several times.
        sc['level'] = 'text'
        k = idx // 3
        n = 0
        while k >= 7 ** n and n < 6:
            k -= 7 ** n
            n += 1
        k %= 7 ** n
        chars = []
        for _ in range(n):
            chars.append(ASCII_ALPHABET[k % 7])
            k //= 7
        sc['text'] = ''.join(chars)
        sc['partitions'] = 'all'
        sc['chunk_sizes'] = list(range(1, n + 2))
        sc['sweep'] = True
        return sc
    if rng.random() < 0.012:
        # more than 64 Ki characters before the interesting read boundary (buffers that are compacted or re-based by size)
        sc['level'] = 'text'
        sc['line_mode'] = False
        lines = []
        total = 0
        target = rng.choice([66000, 70000, 131500])
        while total < target:
            ln = 'a' * rng.choice([3, 50, 255, 256, 1000, 3000]) + rng.choice([',b', '', ',"q"'])
            lines.append(ln)
            total += len(ln) + 2
        sep = rng.choice(['\r\n', '\r\n', '\n', '\r'])
        text = sep.join(lines) + sep + 'x,y' + sep + 'tail'
        sc['text'] = text
        n = len(text)
        parts = set()
        parts.add((n,))
        crlf_positions = [i + 1 for i in range(65536, n - 1) if text[i] == '\r' and text[i + 1] == '\n']
        for pos in crlf_positions[:2] + crlf_positions[-3:]:
            parts.add((pos, n - pos))
            parts.add((65536, pos - 65536, n - pos) if pos > 65536 else (pos, n - pos))
        for _ in range(3):
            pieces = []
            left = n
            while left > 0:
                k = min(left, rng.choice([1024, 4096, 65536, 70000, 999]))
                pieces.append(k)
                left -= k
            parts.add(tuple(pieces))
        sc['partitions'] = sorted(list(p) for p in parts)
        sc['chunk_sizes'] = [1024, 70000]
        return sc
    if rng.random() < 0.0015:
        # more than 1 Mi characters in all (a size at which a reader may start to guard, compact or switch strategy), in long
        # lines only: the reader re-slices its buffer per line, so short lines under one giant read would cost quadratic time
        sc['level'] = rng.choice(['text', 'text', 'utf-8'])
        sc['line_mode'] = False
        sep = rng.choice(['\r\n', '\n', '\r'])
        lines = ['h1,h2']
        total = 0
        target = rng.choice([1048576 + 500, 1100000, 1200000])
        if rng.random() < 0.5:
            ln = 'L' * rng.choice([1048576 - 40, 1048576 - 2000, 1048576, 1048576 + 3])
            lines.append(ln)
            total += len(ln)
        while total < target:
            ln = 'a' * rng.choice([1000, 3000, 20000]) + rng.choice([',b', '', ',"q"'])
            lines.append(ln)
            total += len(ln) + 2
        lines += ['x,y', 'tail']
        text = sep.join(lines) + rng.choice([sep, ''])
        sc['text'] = text
        sc['shape'] = 'plain'
        sc['bufsize'] = 8192
        n = len(text)
        parts = set()
        parts.add((n,))
        for _ in range(2):
            pieces = []
            left = n
            while left > 0:
                k = min(left, rng.choice([1024, 65536, 100000, 1000, 999983, 700]))
                pieces.append(k)
                left -= k
            parts.add(tuple(pieces))
        sc['partitions'] = sorted(list(p) for p in parts)
        sc['chunk_sizes'] = sorted(set([1024, rng.choice([1000, 4096, 65536, 100000]), n + 1]))
        sc['giant'] = True
        return sc
    if r < 0.55:
        sc['level'] = 'text'
        n = rng.choice([0, 1, 2, 3, 4, 5, 5, 6, 6, 7, 7, 8, 8, 9, 10, 12])
        sc['text'] = gen_text(rng, n, ascii_only=rng.random() < 0.6)
        if rng.random() < 0.25:
            sc['seekable'] = True      # the text stream also offers tell() / seek(), as io.StringIO and text files do
    elif r < 0.93:
        sc['level'] = rng.choice(['utf-8', 'utf-8', 'latin-1'])
        n = rng.choice([1, 2, 3, 4, 4, 5, 5, 6, 7, 8])
        text = gen_text(rng, n)
        if rng.random() < 0.25:
            text = '﻿' + text
        sc['text'] = text
        sc['shape'] = rng.choice(['plain', 'std'])
        sc['bufsize'] = rng.choice([1, 2, 3, 4, 8, 16, 8192])
        if sc['level'] == 'utf-8' and rng.random() < 0.08:
            sc['bad_hex'] = rng.choice(['ff', 'c3', 'e282', '80', 'f09f98', 'c328', 'f0'])
            sc['bad_at'] = rng.randrange(len(text) + 1)
    else:
        # long content crossing the reader's default chunk size (1024) and TextIOWrapper's 8192 chunk
        sc['level'] = rng.choice(['text', 'utf-8'])
        target = rng.choice([1020, 1024, 1030, 2050, 1020, 1024, 1030, 2050, 8190, 8200, 16390])     # around the reader's chunk size and TextIOWrapper's 8192-byte decode chunk
        unit = gen_text(rng, rng.choice([3, 7, 40, 300]))
        text = (unit * (target // max(1, len(unit)) + 1))[:target] + gen_text(rng, 8)
        sc['text'] = text
        sc['shape'] = rng.choice(['plain', 'std'])
        sc['bufsize'] = rng.choice([1, 7, 512, 8192])
    er = rng.random()
    if er < 0.06 and not sc.get('bad_hex'):
        sc['entry'] = 'num_rows'
        sc['num_rows'] = rng.choice([1, 2, 3, 3, 50])
        sc['line_mode'] = False
    elif er < 0.16 and sc['level'] != 'text' and not sc.get('bad_hex'):
        # the reader's other users: rbql_main.sample_lines / sample_records and the CSV join registry, all of which open the
        # file themselves (the schedule is delivered through the tracked open() seam)
        sc['entry'] = rng.choice(['sample_lines', 'sample_records', 'join_registry'])
        sc['line_mode'] = False
    text = sc['text']
    n = len(text) if sc['level'] == 'text' else len(scenario_bytes(sc))
    limit = 8 if sc['level'] == 'text' else 7
    if n <= limit:
        sc['partitions'] = 'all'
    else:
        count = 96 if n < 100 else (12 if n < 4000 else 2)
        parts = set()
        parts.add(tuple([n]))
        if n < 4000:
            parts.add(tuple([1] * n))
            for _ in range(count):
                parts.add(tuple(random_composition(rng, n)))
        else:
            # several KiB: a few schedules of mostly large pieces (what a pipe delivers), boundaries around 8192
            for _ in range(count):
                pieces = []
                left = n
                while left > 0:
                    k = min(left, rng.choice([1, 7, 512, 1024, 4096, 8191, 8192, 8193]))
                    pieces.append(k)
                    left -= k
                parts.add(tuple(pieces))
            for b in (8191, 8192, 8193):
                if b < n:
                    parts.add((b, n - b))
        if n >= 1000:
            # boundaries right around the chunk size
            for b in (1023, 1024, 1025):
                if b < n:
                    parts.add((b, n - b))
        sc['partitions'] = sorted(list(p) for p in parts)
    cs_pool = [1, 2, 3, 4, 5, 8, max(1, n - 1), max(1, n), n + 1, 1024] if n < 4000 else [64, 1024, 4096, 8192, n + 1]
    sc['chunk_sizes'] = sorted(set(rng.sample(cs_pool, 3)))
    if rng.random() < 0.06 and not sc.get('entry'):
        # another stream read (and possibly failed on) in the same process just before: what this one yields must not depend on it
        ptext = gen_text(rng, rng.choice([3, 5, 8]), ascii_only=True)
        pre = {'level': 'utf-8', 'text': ptext, 'chunk_size': rng.choice([1, 2, 3]), 'piece': rng.choice([1, 1, 2])}
        if rng.random() < 0.7:
            pre['bad_hex'] = rng.choice(['ff', 'c3', '80'])
            pre['bad_at'] = rng.randrange(len(ptext) + 1)
        sc['prelude'] = pre
    return sc


def scenario_bytes(sc):
    text = sc['text']
    if sc.get('bad_hex'):
        # bytes that are not valid UTF-8, inserted in front of the bad_at-th character (clamped, so that shrinking the text keeps them)
        at = min(sc.get('bad_at', 0), len(text))
        return text[:at].encode('utf-8') + bytes.fromhex(sc['bad_hex']) + text[at:].encode('utf-8')
    return text.encode('utf-8')


def rejection_view(out):
    """For content that is not valid UTF-8: that it is rejected, and with which decode message, must not depend on the
    schedule. How many records were handed out before the rejection legitimately does (the byte stream is decoded one raw
    read at a time), and so does which defect is met first when the content is also mis-quoted."""
    if out[0] == 'ioerr':
        return ['ioerr', out[1] if 'decode' in out[1].lower() else '<another rejection>']
    return out


def same_rejection(a, b):
    a, b = rejection_view(a), rejection_view(b)
    if a == b:
        return True
    return a[0] == 'ioerr' and b[0] == 'ioerr' and '<another rejection>' in (a[1], b[1])


def read_via_entry(t, sc, pieces, stats):
    """sample_lines / sample_records / FileSystemCSVRegistry: they call open() themselves; the tracked open() hands them a
    BufferedReader over the scheduled raw source. chunk_size is whatever those callers use (the default)."""
    import io
    import os
    from .. import fsseam
    from ..streams import SimRawSource
    w = fsseam.work_dir()
    path = os.path.join(w, 'c12_table.csv')
    data = scenario_bytes(sc)
    with open(path, 'wb') as f:
        f.write(data)
    tracker = fsseam.OpenTracker()
    holder = {}

    def sub(mode):
        holder['raw'] = SimRawSource(data, pieces)
        return io.BufferedReader(holder['raw'], buffer_size=max(1, sc.get('bufsize', 8192)))
    tracker.substitutes[path] = sub
    entry = sc['entry']
    try:
        with fsseam.ProcessSeam(t, tracker=tracker) as seam:
            if entry == 'sample_lines':
                out = ['lines', t.main.sample_lines(path, sc['level'], sc['delim'], sc['policy'], sc['comment_prefix'])]
            elif entry == 'sample_records':
                recs, warns = t.main.sample_records(path, sc['delim'], sc['policy'], sc['level'], sc['comment_prefix'])
                out = ['sampled', recs, warns]
            else:
                reg = t.csv.FileSystemCSVRegistry(w, sc['delim'], sc['policy'], sc['level'], sc['has_header'], sc['comment_prefix'])
                try:
                    it = reg.get_iterator_by_table_id('c12_table.csv', 'b')
                    recs = it.get_all_records()
                    out = ['join', recs, it.get_header(), it.get_warnings(), reg.get_warnings()]
                finally:
                    reg.finish()
        seam.restore_hook()
    except t.engine.RbqlIOHandlingError as e:
        out = ['ioerr', str(e)]
    except Exception as e:
        out = ['exc', type(e).__name__, str(e)]
    finally:
        tracker.close_all()
        try:
            os.unlink(path)
        except OSError:
            pass
    if stats is not None and 'raw' in holder:
        stats['nreads'] = holder['raw'].nreads
    return out


def read_case(t, sc, pieces, chunk_size, stats=None):
    """Run the real reader over one delivery schedule. Returns a JSON-able outcome."""
    level = sc['level']
    if sc.get('entry') in ('sample_lines', 'sample_records', 'join_registry'):
        return read_via_entry(t, sc, pieces, stats)
    if level == 'text':
        stream = SimTextSource(sc['text'], pieces, seekable=bool(sc.get('seekable')))
        enc = None
    else:
        stream, raw = make_byte_input(scenario_bytes(sc), pieces, sc.get('bufsize', 8192), sc.get('shape', 'plain'))
        enc = level
    records = []
    try:
        it = t.csv.CSVRecordIterator(stream, enc, sc['delim'], sc['policy'], has_header=sc['has_header'],
                                     comment_prefix=sc['comment_prefix'], chunk_size=chunk_size, line_mode=sc['line_mode'])
        if sc['line_mode']:
            while True:
                row = it.polymorphic_get_row()
                if row is None:
                    break
                records.append(row)
            out = ['rows', records, it.get_warnings()]
        elif sc.get('entry') == 'num_rows':
            records = it.get_all_records(num_rows=sc['num_rows'])
            out = ['ok', records, it.get_header(), it.get_warnings()]
        else:
            while True:
                rec = it.get_record()
                if rec is None:
                    break
                records.append(rec)
            out = ['ok', records, it.get_header(), it.get_warnings()]
    except t.engine.RbqlIOHandlingError as e:
        out = ['ioerr', str(e), records]
    except Exception as e:
        out = ['exc', type(e).__name__, str(e), records]
    if stats is not None:
        if level == 'text':
            stats['nreads'] = len(stream.requests)
            if chunk_size != 1:
                la = [r for r in stream.requests if r[0] == 1]
                stats['lookahead'] = len(la)
                stats['lookahead_eof'] = sum(1 for r in la if r[1] == 0)
        else:
            stats['nreads'] = raw.nreads
    return out


# ------------------------------------------------------------------ reference model (record assembly only)

_nl = re.compile('\r\n|\r|\n')


def model_outcome(t, sc):
    level = sc['level']
    if level == 'latin-1':
        s = scenario_bytes(sc).decode('latin-1')
    else:
        s = sc['text']
    lines = _nl.split(s)
    if lines and lines[-1] == '':
        lines.pop()
    bom = False
    if lines:
        if level == 'utf-8' and lines[0][:1] == '﻿':
            lines[0] = lines[0][1:]
            bom = True
        elif level == 'latin-1' and lines[0][:3] == '\xef\xbb\xbf':
            lines[0] = lines[0][3:]
            bom = True
    prefix = sc['comment_prefix'] if sc['comment_prefix'] else None
    rfc = sc['policy'] == 'quoted_rfc'
    # rows: (text, NL after the row)
    rows = []
    if not rfc:
        rows = [(l, i + 1) for i, l in enumerate(lines)]
    else:
        i = 0
        while i < len(lines):
            first = lines[i]
            i += 1
            if (prefix is not None and first.startswith(prefix)) or first.count('"') % 2 == 0:
                rows.append((first, i))
                continue
            buf = [first]
            while i < len(lines):
                buf.append(lines[i])
                i += 1
                if buf[-1].count('"') % 2 == 1:
                    break
            rows.append(('\n'.join(buf), i))
    warnings = []
    if bom:
        warnings.append('UTF-8 Byte Order Mark (BOM) was found and skipped in input table')
    if sc['line_mode']:
        return ['rows', [r[0] for r in rows], warnings]
    records = []
    fields_info = {}
    defective = None
    err = None
    nr = 0
    for row, nl in rows:
        if prefix is not None and row.startswith(prefix):
            continue
        nr += 1
        rec, warn = t.csv_utils.smart_split(row, sc['delim'], sc['policy'], preserve_quotes_and_whitespaces=False)
        if warn and defective is None:
            defective = nl
            if rfc:
                err = 'Inconsistent double quote escaping in input table at record %d, line %d' % (nr, nl)
                break
        if len(rec) not in fields_info:
            fields_info[len(rec)] = nr
        records.append(rec)
    if err is not None:
        # records delivered to the consumer before the failure; the header record (pre-read) is not delivered
        delivered = records[1:] if sc['has_header'] else records
        if sc['has_header'] and nr == 1:
            delivered = []
        return ['ioerr', err, delivered]
    if defective is not None:
        warnings.append('Inconsistent double quote escaping in input table. E.g. at line %d' % defective)
    if len(fields_info) > 1:
        items = sorted(fields_info.items(), key=lambda v: v[1])
        warnings.append('Number of fields in "input" table is not consistent: e.g. record %d -> %d fields, record %d -> %d fields' % (
            items[0][1], items[0][0], items[1][1], items[1][0]))
    if sc['has_header']:
        header = records[0] if records else None
        return ['ok', records[1:], header, warnings]
    return ['ok', records, None, warnings]


def warning_kind(w):
    """The model is compared on what a warning / error is about, not on its wording or on which line / record number it
    quotes (the property fixes neither; the numbers are still compared between schedules by the schedule oracle)."""
    low = w.lower()
    if 'bom' in low or 'byte order mark' in low:
        return ['bom']
    if 'quot' in low:
        return ['quoting']
    if 'number of fields' in low or 'consistent' in low:
        return ['field_count']
    return ['other', w]


def model_view(out):
    if out[0] == 'ok':
        return ['ok', out[1], out[2], [warning_kind(w) for w in out[3]]]
    if out[0] == 'rows':
        return ['rows', out[1], [warning_kind(w) for w in out[2]]]
    if out[0] == 'ioerr':
        return ['ioerr', warning_kind(out[1])] + list(out[2:])
    return out


# ------------------------------------------------------------------ execution

def iter_cases(sc):
    if sc['kind'] == 'single':
        yield list(sc['pieces']), sc['chunk_size']
        return
    n = len(sc['text']) if sc['level'] == 'text' else len(scenario_bytes(sc))
    if sc['partitions'] == 'all':
        parts = [core.compositions_from_mask(n, m) for m in range(1 << max(0, n - 1))]
    else:
        parts = sc['partitions']
    for p in parts:
        for cs in sc['chunk_sizes']:
            yield p, cs


def content_is_interesting(sc):
    s = sc['text']
    return any(c in s for c in '\r\n"') or not s.isascii()


def single_case(sc, pieces, cs):
    out = {k: v for k, v in sc.items() if k not in ('partitions', 'chunk_sizes')}
    out['kind'] = 'single'
    out['pieces'] = list(pieces)
    out['chunk_size'] = cs
    return out


def run_prelude(t, sc):
    pre = sc.get('prelude')
    if not pre:
        return
    psc = {'kind': 'single', 'level': pre['level'], 'text': pre['text'], 'policy': sc['policy'], 'delim': sc['delim'], 'comment_prefix': None,
           'has_header': False, 'line_mode': False, 'shape': 'plain', 'bufsize': 1, 'bad_hex': pre.get('bad_hex'), 'bad_at': pre.get('bad_at', 0)}
    nb = len(scenario_bytes(psc))
    pieces = [pre['piece']] * (nb // pre['piece']) + ([nb % pre['piece']] if nb % pre['piece'] else [])
    read_case(t, psc, pieces, pre['chunk_size'])       # whatever it yields (records or a rejection) is not looked at


def execute(sc):
    t = core.load_tree()
    counters = {}
    run_prelude(t, sc)
    if sc.get('prelude'):
        bump(counters, 'fault.other_stream_read_just_before' + ('_and_rejected' if sc['prelude'].get('bad_hex') else ''))
    n = len(sc['text']) if sc['level'] == 'text' else len(scenario_bytes(sc))
    ref = read_case(t, sc, [n] if n else [], n + 1)
    model = model_outcome(t, sc) if not (sc.get('entry') or sc.get('bad_hex')) else ref
    bad = bool(sc.get('bad_hex'))
    res = {'verdict': 'ok', 'oracle': None, 'counters': counters, 'evals': 0, 'nontrivial': 0, 'steps': 0}
    if sc['kind'] == 'batch':
        res['key'] = core.key64([sc['level'], sc['text'], sc['policy'], sc['delim'], sc['comment_prefix'], sc['has_header'], sc['line_mode'],
                                 sc.get('shape'), sc.get('bufsize'), sc.get('entry'), sc.get('num_rows'), sc.get('bad_hex'), sc.get('bad_at'), sc.get('seekable')])
    else:
        res['key'] = core.key64(sc)
    if sc.get('entry') == 'num_rows' and ref[0] == 'ok':
        # two ways of reading the same content: get_all_records(num_rows=N) must hand out the first N records of the get_record() loop
        plain_sc = {k: v for k, v in sc.items() if k not in ('entry', 'num_rows')}
        plain = read_case(t, plain_sc, [n] if n else [], n + 1)
        if plain[0] == 'ok' and ref[1] != plain[1][:sc['num_rows']]:
            res.update(verdict='violation', oracle='model', detail={'get_all_records': ref, 'get_record_loop': plain, 'num_rows': sc['num_rows']},
                       case=single_case(sc, [n] if n else [], n + 1))
            res['evals'] = 2
            res['digest'] = core.digest([ref, plain])
            return res
    if model_view(ref) != model_view(model):
        res.update(verdict='violation', oracle='model', detail={'whole_delivery': ref, 'model': model},
                   case=single_case(sc, [n] if n else [], n + 1))
        res['evals'] = 1
        res['digest'] = core.digest([ref, model])
        return res
    interesting = content_is_interesting(sc)
    text = sc['text']
    data = None if sc['level'] == 'text' else scenario_bytes(sc)
    seen = set()
    outs = []
    for pieces, cs in iter_cases(sc):
        ck = (tuple(pieces), cs)
        if ck in seen:
            continue
        seen.add(ck)
        stats = {}
        out = read_case(t, sc, pieces, cs, stats)
        res['evals'] += 1
        res['steps'] += stats.get('nreads', 0)
        outs.append(out[0])
        if sc['level'] == 'text':
            bump(counters, 'sched.text_level')
            if stats.get('lookahead'):
                bump(counters, 'probe.cr_lookahead_taken')
            if stats.get('lookahead_eof'):
                bump(counters, 'probe.cr_lookahead_at_eof')
            for b in core.boundaries(pieces):
                if text[b - 1] == '\r' and text[b] == '\n':
                    bump(counters, 'probe.crlf_split_across_reads')
                    break
        else:
            bump(counters, 'sched.byte_level_' + sc['level'])
            for b in core.boundaries(pieces):
                if (data[b] & 0xC0) == 0x80:
                    bump(counters, 'probe.multibyte_split')
                    if data[:3] == b'\xef\xbb\xbf' and b < 3:
                        bump(counters, 'probe.bom_split')
                    break
            for b in core.boundaries(pieces):
                if data[b - 1] == 13 and data[b] == 10:
                    bump(counters, 'probe.crlf_split_across_reads')
                    break
        if stats.get('nreads', 0) >= 3 and interesting:   # >= 2 data reads + the EOF read
            res['nontrivial'] += 1
        if (not same_rejection(out, ref)) if bad else (out != ref):
            res.update(verdict='violation', oracle='schedule', detail={'whole_delivery': ref, 'this_schedule': out, 'pieces': pieces, 'chunk_size': cs},
                       case=single_case(sc, pieces, cs))
            break
    if ref[0] == 'ioerr':
        bump(counters, 'probe.rfc_quote_error')
    if ref[0] == 'ok' and sc['policy'] == 'quoted_rfc' and any('\n' in f for rec in ref[1] for f in rec):
        bump(counters, 'probe.rfc_record_spans_lines')
    if any('BOM' in w for w in (ref[-1] if ref[0] in ('ok', 'rows') else [])):
        bump(counters, 'probe.bom_dropped')
    if bad:
        bump(counters, 'fault.invalid_utf8_bytes_in_content')
        if ref[0] == 'ioerr' and 'decode' in ref[1].lower():
            bump(counters, 'probe.invalid_utf8_rejected')
    if n >= 1000:
        bump(counters, 'probe.content_crosses_default_chunk_size')
    if n > 1048576:
        bump(counters, 'probe.content_over_1Mi')
    if sc.get('entry'):
        bump(counters, 'entry.' + sc['entry'])
    if sc.get('sweep'):
        bump(counters, 'sched.sweep_text_all_compositions_all_chunk_sizes')
    res['digest'] = core.digest([ref, model, res['evals'], res['verdict']])
    return res


def signature(sc, result):
    return 'C12/%s/%s/%s' % (result['oracle'], sc['level'], sc['policy'])


def sample_view(sc):
    v = dict(sc)
    if isinstance(v.get('partitions'), list) and len(v['partitions']) > 3:
        v['partitions'] = v['partitions'][:3] + ['... %d schedules' % len(sc['partitions'])]
    if len(v['text']) > 60:
        v['text'] = v['text'][:60] + '...(%d chars)' % len(sc['text'])
    return v


def shrinks(sc):
    """Candidates smaller than a single-case scenario."""
    if sc['kind'] != 'single':
        return
    text = sc['text']
    pieces = list(sc['pieces'])
    is_text = sc['level'] == 'text'

    def units(s):
        return len(s) if is_text else len(scenario_bytes(dict(sc, text=s)))

    def with_text(new_text, new_pieces=None):
        c = dict(sc)
        c['text'] = new_text
        n = units(new_text)
        if new_pieces is None:
            # keep the boundary positions that still fit
            bs = [b for b in core.boundaries(pieces) if b < n]
            new_pieces = []
            prev = 0
            for b in bs:
                new_pieces.append(b - prev)
                prev = b
            if n - prev > 0:
                new_pieces.append(n - prev)
        c['pieces'] = new_pieces
        return c
    if sc.get('prelude'):
        c = dict(sc)
        c.pop('prelude')
        yield c
    # drop blocks of characters (halves, quarters, ...) before single characters
    size = len(text) // 2
    while size >= 2:
        for i in range(0, len(text), size):
            yield with_text(text[:i] + text[i + size:])
        size //= 2
    for i in range(len(text)):
        nt = text[:i] + text[i + 1:]
        yield with_text(nt)
    # merge adjacent pieces
    for i in range(len(pieces) - 1):
        c = dict(sc)
        c['pieces'] = pieces[:i] + [pieces[i] + pieces[i + 1]] + pieces[i + 2:]
        yield c
    # default knobs
    for k, v in (('comment_prefix', None), ('has_header', False), ('line_mode', False), ('shape', 'plain'), ('bufsize', 8192), ('chunk_size', 1024), ('entry', None), ('seekable', False)):
        if k in sc and sc[k] != v:
            c = dict(sc)
            c[k] = v
            yield c
    # simpler characters
    for i, ch in enumerate(text):
        if ch not in 'a\n' and is_text:
            yield with_text(text[:i] + 'a' + text[i + 1:], pieces)
