# C02 - ORDER BY / DISTINCT / TOP compose as sort, dedup, truncate; bounded streaming queries stop pulling.
#
# Simulation target: the consumption / termination clause. The simulator owns the record producer
# (finite, endless, or stalling with no EOF) and observes the iterator and writer seams: how many
# records were pulled relative to each write. The ordering clauses are evaluated as a by-product on
# the recorded finite-producer histories (reported separately, the level does not rest on them).
# Both engines are driven: rbql_engine.query in-process, rbql.js through the Node driver.

from .. import core, jsbridge
from ..core import bump

ID = 'C02'
LEVEL = 'exploration'
IN_PROCESS = True          # scenarios run inside the worker; violations are confirmed in a pristine interpreter (rbqlsim/zygote.py)
COLD_START_EVERY = 200      # and one run in 200 is executed there in the first place
TIERS = {
    'quick': {'runs': 120000, 'deadline_s': 90, 'chunk': 250},
    'thorough': {'runs': 2500000, 'deadline_s': 1200, 'chunk': 500},
}
RULE = ('one run = one seeded query (items x WHERE x JOIN x UNNEST x DISTINCT[/COUNT] x ORDER BY x TOP/LIMIT n) with one seeded producer (finite table of 0-8 records; '
        'endless dense / sparse / periodic generator; stall = no more records and no EOF) executed by the Python engine and by rbql.js through the driver; up to 4 engine '
        'runs per engine (raw stream, unbounded, bounded, reference on the truncated producer). Non-trivial = the query has a bound that was reached or an ORDER BY / DISTINCT with '
        'at least one duplicate key; distinct = distinct scenario digests.')
COMPONENTS = {
    'real': ['rbql_engine.query: parser, generated main loop, TopWriter / UniqWriter / UniqCountWriter / SortedWriter, join map, UNNEST', 'rbql.js query (same) through js/driver.js'],
    'stub': ['record producer (RBQLInputIterator implementation: finite / endless / stalling)', 'recording output writer', 'in-memory join registry'],
}
ASSUMPTIONS = [
    'consumption: with bound n >= 1 the bounded run may pull at most as many records as its first n outputs need, i.e. the smallest input prefix over which the unbounded query already yields n outputs (found by walking down from the pull count of the unbounded run)',
    'n = 0: the engine learns the bound only at its first output candidate; pulls up to that candidate are tolerated (deliberate leniency), no-candidate producers are discarded',
    'the order/dedup model sorts the engine\'s own unsorted projected stream, so projection errors (C01) are outside this check',
    'sort keys are strings or ints of one type per column; cross-type ordering is not generated',
]

L_CAP = 64
C2 = ['v1', 'v2', 'x', 'v1', 'v10', 'v2']
C3 = ['p;q', 'r', '', 's;t;u', 'p;q', 'r;r']

LIST_ITEM = "a3.split(';')"
MIXED_NUM = '[3, 2.5, 10, 0.75, -1][NR % 5]'      # ints and floats in one column (valid in both engines)
DOLLAR_KEY = '["$$$", "$", "$$"][NR % 3]'      # string keys made of a character that is special in JavaScript replacement strings
DOLLAR_LITS = ['$$$', '$', '$$']
KEYWORD_LITERALS = ["' limit 2 '", "'top 1 distinct'", "' order by a1 desc'"]      # string literals are opaque: keywords inside them are data
VALUE_AND_TEXT = "[7, '7', 2.5, '2.5', 7, '7'][NR % 6]"      # a value and its textual form in one column: distinct records, same printed form
ITEMS = ['a1', 'a2', 'a3', 'NR', "'lit'", 'a1 + a2', 'NR % 2 - 2', 'NR % 3 - 2', 'a2', 'a1', LIST_ITEM, MIXED_NUM, VALUE_AND_TEXT] + KEYWORD_LITERALS
UNNEST_ITEM = "UNNEST(a3.split(';'))"
# rbql-js only: output values that JSON cannot carry. Each item yields one kind of special value next to ordinary ones,
# so that "distinct" (which rbql-js decides on the JSON form of the record) and plain equality agree.
JS_SPECIAL_ITEMS = ['parseInt(a2.substring(1))',            # NaN for 'x' / 'zz'
                    '(1 + NR % 3) / (NR % 2)',              # Infinity on even records (never NaN: the two would share a JSON form)
                    "a3.split(';')[1]",                     # undefined when there is no second part
                    'new Date(2020, 0, 1 + NR % 3)',        # Date objects
                    '-(NR % 2)']                            # -0 on even records (never next to +0)
WHERES = [None, None, "a2 == 'v1'", 'NR <= 3', 'NR <= 5', "like(a2, 'v%')", 'a1 != a1', "a2 != 'zz'", "a2 != ' limit 1 '", "a1 != 'select top 1 distinct'"]


class SimCap(BaseException):
    pass


class SimStall(BaseException):
    pass


def endless_record(spec, i):
    # must stay identical to js/driver.js: endless_record()
    a1 = str((i * spec['k1']) % spec['p1'])
    sparse = spec['sparse_after']
    a2 = C2[i % spec['p2']] if (sparse is None or i <= sparse) else 'zz'
    a3 = C3[i % spec['p3']]
    if sparse is not None and i > sparse:
        a1 = 'zz'
        a3 = 'zz'
    return [a1, a2, a3]


def producer_prefix(producer, n):
    if producer['type'] in ('finite', 'stall'):
        return [list(r) for r in producer['rows'][:n]]
    return [endless_record(producer, i) for i in range(1, n + 1)]


# ----------------------------------------------------------------------------- Python seam objects

def make_classes(t):
    class PyIterator(t.engine.RBQLInputIterator):
        def __init__(self, producer, prefix, trace, max_pulls):
            self.producer = producer
            self.prefix = prefix
            self.trace = trace
            self.max_pulls = max_pulls
            self.nr = 0
            self.fields_info = {}

        def get_variables_map(self, query_text):
            m = {}
            t.engine.parse_basic_variables(query_text, self.prefix, m)
            t.engine.parse_array_variables(query_text, self.prefix, m)
            return m

        def get_record(self):
            if self.prefix == 'a':
                self.trace['pulls'] += 1
                if self.max_pulls is not None and self.trace['pulls'] > self.max_pulls:
                    raise SimCap()
            p = self.producer
            if p['type'] == 'finite':
                if self.nr >= len(p['rows']):
                    return None
                rec = list(p['rows'][self.nr])
            elif p['type'] == 'stall':
                if self.nr >= len(p['rows']):
                    raise SimStall()
                rec = list(p['rows'][self.nr])
            else:
                rec = endless_record(p, self.nr + 1)
            self.nr += 1
            return rec

    class PyWriter(t.engine.RBQLOutputWriter):
        def __init__(self, trace, truthy=None):
            self.trace = trace
            self.rows = []
            self.header = None
            self.truthy = truthy

        def write(self, fields):
            self.trace['pulls_at_write'].append(self.trace['pulls'])
            self.rows.append(fields)
            # "go on" is any truthy value: a caller's writer may return what its own stream.write() returned
            if self.truthy == 'count':
                return len(fields) + 1
            if self.truthy == 'str':
                return 'ok'
            return True

        def set_header(self, header):
            self.header = header

    class PyRegistry(t.engine.RBQLTableRegistry):
        def __init__(self, rows, trace):
            self.rows = rows
            self.trace = trace

        def get_iterator_by_table_id(self, table_id, alias):
            if table_id.lower() != 'b':
                return None
            return PyIterator({'type': 'finite', 'rows': self.rows}, alias, self.trace, None)
    import io as _io

    class PyCSVWriter(t.csv.CSVWriter):
        """The real CSV writer (which rewrites the record it is given in place) over an in-memory text stream."""
        def __init__(self, trace):
            self.sink = _io.StringIO()
            t.csv.CSVWriter.__init__(self, self.sink, False, None, ',', 'quoted')
            self.trace = trace

        def write(self, fields):
            self.trace['pulls_at_write'].append(self.trace['pulls'])
            return t.csv.CSVWriter.write(self, fields)

        @property
        def rows(self):
            return self.sink.getvalue().split('\n')[:-1]

    return PyIterator, PyWriter, PyRegistry, PyCSVWriter


_classes = {}


def render_csv(rows):
    """Expected rows as the real CSV writer prints them (one fresh writer, no query involved)."""
    t = core.load_tree()
    if 'c' not in _classes:
        _classes['c'] = make_classes(t)
    wr = _classes['c'][3]({'pulls': 0, 'pulls_at_write': []})
    for r in rows:
        wr.write(list(r))
    return wr.rows


def run_py(query, producer, join_rows, max_pulls=None, csv_writer=False, latency=None, truthy=None):
    t = core.load_tree()
    if 'c' not in _classes:
        _classes['c'] = make_classes(t)
    PyIterator, PyWriter, PyRegistry, PyCSVWriter = _classes['c']
    trace = {'pulls': 0, 'pulls_at_write': []}
    it = PyIterator(producer, 'a', trace, max_pulls)
    wr = PyCSVWriter(trace) if csv_writer else PyWriter(trace, truthy)
    reg = PyRegistry(join_rows, trace) if join_rows is not None else None
    warnings = []
    try:
        t.engine.query(query, it, wr, warnings, reg)
        outcome = ['ok']
    except SimCap:
        outcome = ['cap']
    except SimStall:
        outcome = ['stall']
    except Exception as e:
        outcome = ['err', type(e).__name__, str(e)[:300]]
    import json
    rows = json.loads(core.canon(wr.rows))
    return {'outcome': outcome, 'rows': rows, 'pulls': trace['pulls'], 'pulls_at_write': trace['pulls_at_write']}


def run_js(query, producer, join_rows, max_pulls=None, csv_writer=False, latency=None, truthy=None):
    req = {'kind': 'query', 'query': query, 'producer': producer, 'max_pulls': max_pulls}
    if truthy:
        req['write_result'] = truthy
    if latency:
        req['write_latency'] = latency     # event-loop turns each write() of the output writer takes before it settles
    if join_rows is not None:
        req['join_rows'] = join_rows
    r = jsbridge.call(req)
    return {'outcome': r['outcome'], 'rows': r['rows'], 'pulls': r['pulls'], 'pulls_at_write': r['pulls_at_write']}


RUNNERS = {'py': run_py, 'js': run_js}


# ----------------------------------------------------------------------------- scenario -> query text

def build_query(sc, order=True, distinct=True, bound=True):
    """Clause tokens joined by the scenario's separators (one or more blanks / tabs: spelling that must not matter)."""
    items = list(sc['items'])
    if sc.get('unnest_at') is not None:
        items[sc['unnest_at']] = sc.get('unnest_expr') or UNNEST_ITEM
    toks = [KW('select')]
    b = sc.get('bound') if bound else None
    if b and b['form'] == 'top':
        toks += [KW('top'), str(b['n'])]
    if distinct and sc.get('distinct') == 'd':
        toks.append(KW('distinct'))
    elif distinct and sc.get('distinct') == 'dc':
        toks += [KW('distinct'), KW('count')]
    toks.append(', '.join(items))
    if sc.get('join'):
        toks += [KW(w) for w in sc['join'].split(' ')] + ['B', KW('on'), 'a2 == b1']
    if sc.get('where'):
        toks += [KW('where'), sc['where']]
    if sc.get('group_by'):
        toks += [KW('group'), KW('by'), sc['group_by']]
    o = sc.get('order') if order else None
    if o:
        toks += [KW('order'), KW('by'), ', '.join(order_key_texts(sc))]
        if o['dir']:
            toks.append(KW(o['dir']))
    if b and b['form'] == 'limit':
        toks += [KW('limit'), str(b['n'])]
    # keyword spelling (case) is a knob too: a cycle of styles applied to the keyword tokens in order
    styles = sc.get('kwcase') or ['asis']
    k = 0
    for i, tok in enumerate(toks):
        if isinstance(tok, KW):
            toks[i] = recase(str(tok), styles[k % len(styles)])
            k += 1
    seps = sc.get('spacing') or [' ']
    out = toks[0]
    for i, tok in enumerate(toks[1:]):
        out += seps[i % len(seps)] + tok
    return out


class KW(str):
    """A keyword token of the query text (as opposed to an expression or a number)."""


def recase(word, style):
    if style == 'upper':
        return word.upper()
    if style == 'lower':
        return word.lower()
    if style == 'title':
        return word[:1].upper() + word[1:].lower()
    if style == 'mixed':
        return ''.join(c.upper() if i % 2 else c.lower() for i, c in enumerate(word))
    if style == 'mixed2':
        return ''.join(c.lower() if i % 2 else c.upper() for i, c in enumerate(word[:-1])) + word[-1:].upper()
    return word


def order_key_texts(sc):
    o = sc['order']
    if o.get('exprs'):
        return list(o['exprs'])
    return [sc['items'][c] for c in o['cols']]


def build_raw_query(sc):
    """The query without ORDER BY / DISTINCT / bound; hidden ORDER BY expressions are appended as extra columns."""
    o = sc.get('order')
    if not o or not o.get('exprs'):
        return build_query(sc, order=False, distinct=False, bound=False)
    c = dict(sc)
    c['items'] = list(sc['items']) + list(o['exprs'])
    return build_query(c, order=False, distinct=False, bound=False)


def is_buffering(sc):
    return bool(sc.get('order')) or sc.get('distinct') == 'dc' or bool(sc.get('group_by'))


def model(sc, raw_rows):
    rows = [list(r) for r in raw_rows]
    o = sc.get('order')
    if o:
        for r in rows:
            if any(k is None for k in sort_key_of(sc, r)):
                # ordering by a missing value is an error in the Python engine and engine-specific in JS: not this property's subject
                raise TypeError('None in sort key')
        if o.get('exprs'):
            nk = len(o['exprs'])
            rows = sorted(rows, key=lambda r: tuple(r[len(r) - nk:]))
            if o['dir'] and o['dir'].lower() == 'desc':
                rows.reverse()
            rows = [r[:len(r) - nk] for r in rows]
        else:
            rows = sorted(rows, key=lambda r: tuple(r[c] for c in o['cols']))
            if o['dir'] and o['dir'].lower() == 'desc':
                rows.reverse()
    d = sc.get('distinct')
    if d == 'd':
        seen = set()
        out = []
        for r in rows:
            k = core.canon(r)
            if k not in seen:
                seen.add(k)
                out.append(r)
        rows = out
    elif d == 'dc':
        counts = {}
        order = []
        for r in rows:
            k = core.canon(r)
            if k not in counts:
                counts[k] = 0
                order.append((k, r))
            counts[k] += 1
        rows = [[counts[k]] + r for k, r in order]
    return rows


# ----------------------------------------------------------------------------- generation

def gen_rows(rng, n, ragged=False):
    c1 = ['1', '2', '3', '10', '2', '1']
    c2 = C2
    if rng.random() < 0.2:
        # number-like strings and non-ASCII text (Basic Multilingual Plane only: there Python's code-point order and JavaScript's
        # UTF-16 code-unit order agree), empty strings: to the engines these are just strings
        c1 = c1 + [' 1', '1e3', '0x10', '-0', '1_000', '\u0663', '']
        c2 = C2 + ['\u00e91', 'Zo\u00eb', '\u20ac', 'v 1', '', 'V1', 'v1 ']
    rows = [[rng.choice(c1), rng.choice(c2), rng.choice(C3)] for _ in range(n)]
    if ragged:
        # short records: the missing fields read as None / null
        for r in rows:
            if rng.random() < 0.4:
                del r[rng.choice([1, 2]):]
    return rows


def generate(rng, tier, idx):
    sc = {}
    k = rng.choice([1, 2, 2, 3])
    items = [rng.choice(ITEMS) for _ in range(k)]
    sc['items'] = items
    sc['unnest_at'] = None
    if rng.random() < 0.25:
        pos = rng.randrange(len(items))
        sc['unnest_at'] = pos
    sc['where'] = rng.choice(WHERES)
    sc['join'] = rng.choice([None, None, None, 'join', 'left join', 'inner join'])
    if sc['join'] and rng.random() < 0.5:
        sc['items'] = items = items + ['b2']
    sc['distinct'] = rng.choice([None, None, None, 'd', 'd', 'dc'])
    sc['order'] = None
    sortable = [i for i in range(len(items)) if i != sc['unnest_at'] and items[i] not in (LIST_ITEM, VALUE_AND_TEXT) and not (items[i] == 'b2' and sc['join'] == 'left join')]
    if rng.random() < 0.4 and sortable:
        cols = [rng.choice(sortable)]
        if rng.random() < 0.35 and len(sortable) > 1:
            c2 = rng.choice(sortable)
            if c2 != cols[0]:
                cols.append(c2)
        sc['order'] = {'cols': cols, 'dir': rng.choice([None, 'asc', 'desc', 'DESC', 'desc', 'ASC', 'desc'])}
        if rng.random() < 0.4:
            # keys that are not (all) in the select list; ints and strings are never mixed within one key position
            pool = ['a1', 'a2', 'a3', 'NR', 'a2 + a1', 'NR % 2', 'NR % 3', LIST_ITEM, "[NR % 2] + a3.split(';')", MIXED_NUM, MIXED_NUM, DOLLAR_KEY]
            exprs = [rng.choice(pool)]
            if rng.random() < 0.4:
                exprs.append(rng.choice(pool))
            sc['order']['exprs'] = exprs
    sc['bound'] = None
    if rng.random() < 0.75:
        sc['bound'] = {'form': rng.choice(['top', 'limit']), 'n': rng.choice([0, 1, 1, 2, 2, 3, 4, 6, 9, 12])}
    pr = rng.random()
    buffering = is_buffering(sc)
    if pr < 0.5 or buffering or sc['bound'] is None:
        sc['producer'] = {'type': 'finite', 'rows': gen_rows(rng, rng.choice([0, 1, 2, 3, 4, 5, 6, 8, 8, 11, 14]), ragged=rng.random() < 0.15)}     # (11, 14: NR gets a second digit)
    elif pr < 0.9:
        shape = rng.choice(['dense', 'sparse', 'sparse', 'periodic'])
        sc['producer'] = {'type': 'endless', 'shape': shape, 'k1': rng.choice([1, 3, 7]), 'p1': rng.choice([2, 3, 5, 11]) if shape != 'dense' else 1000003,
                          'p2': rng.choice([1, 2, 3, 6]), 'p3': rng.choice([1, 2, 6]),
                          'sparse_after': rng.choice([1, 2, 3, 5, 8]) if shape == 'sparse' else None}
    else:
        sc['producer'] = {'type': 'stall_at_bound', 'rows': gen_rows(rng, rng.choice([3, 5, 8, 12]))}
    if sc['producer']['type'] == 'finite' and sc['order'] and (sc['unnest_at'] is not None or sc['join']) and rng.random() < 0.008:
        # more than 1024 records reach the sort buffer, several of them per input record (sizes at which a writer may
        # start to sort in runs, spill or re-allocate)
        sc['producer'] = {'type': 'finite', 'rows': gen_rows(rng, rng.choice([700, 900, 1300]))}
        sc['large'] = True
    sc['join_rows'] = None
    if sc['join']:
        keys = ['v1', 'v2', 'x', 'nokey', 'v1']
        sc['join_rows'] = [[rng.choice(keys), rng.choice(['J1', 'J2', 'J3']), rng.choice(['m', 'n'])] for _ in range(rng.choice([0, 1, 2, 3, 4, 5]))]
    if rng.random() < 0.3:
        sc['spacing'] = [rng.choice([' ', ' ', '  ', '   ', ' \t', '\t ']) for _ in range(rng.choice([2, 3, 5]))]
    if rng.random() < 0.06 and not sc.get('group_by') and not (sc['producer']['type'] == 'finite' and any(len(r) < 3 for r in sc['producer']['rows'])):
        free = [i for i in range(len(sc['items'])) if i != sc['unnest_at'] and not (sc['order'] and i in sc['order']['cols'])]
        if free:
            sc['items'] = list(sc['items'])
            sc['items'][rng.choice(free)] = rng.choice(JS_SPECIAL_ITEMS)
            sc['js_only'] = True
    if rng.random() < 0.12:
        sc['writer_truthy'] = rng.choice(['count', 'str'])     # the caller's writer answers "go on" with a truthy value other than True
    if rng.random() < 0.15:
        # rbql-js only: an output writer whose write() settles after a varying number of event-loop turns (a writer doing real I/O)
        sc['js_write_latency'] = [rng.choice([0, 1, 2, 3]) for _ in range(rng.choice([2, 3, 5]))]
    if rng.random() < 0.3:
        sc['kwcase'] = [rng.choice(['upper', 'lower', 'title', 'title', 'mixed', 'mixed2', 'asis']) for _ in range(rng.choice([1, 2, 3, 5]))]
    sc['engines'] = ['js'] if sc.get('js_only') else ['py', 'js']
    if sc['unnest_at'] is not None and not sc.get('js_only') and rng.random() < 0.3:
        # UNNEST over a list that is empty for some records (they contribute nothing to the output); the slice is spelt
        # differently in the two languages, so such a scenario exercises one engine
        if rng.random() < 0.5:
            sc['engines'], sc['unnest_expr'] = ['py'], "UNNEST(a3.split(';')[1:])"
        else:
            sc['engines'], sc['unnest_expr'] = ['js'], "UNNEST(a3.split(';').slice(1))"
    # a quarter of the runs print through the real CSV writer (Python engine), which rewrites the records it receives in place
    sc['writer'] = 'csv' if rng.random() < 0.25 else 'list'
    if rng.random() < 0.12:
        # aggregate shape: only the bound-prefix clause applies (what the groups contain is C03's subject)
        key = rng.choice(['a2', 'a1', 'a3'])
        sc['items'] = [key, rng.choice(['COUNT(*)', 'MAX(a1)', 'MIN(a2)', 'COUNT(1)'])]
        sc['group_by'] = key
        sc.pop('js_only', None)
        sc.pop('unnest_expr', None)
        sc['engines'] = ['py', 'js']
        sc['unnest_at'] = None
        sc['distinct'] = None
        sc['order'] = None
        if sc['producer']['type'] != 'finite':
            sc['producer'] = {'type': 'finite', 'rows': gen_rows(rng, rng.choice([0, 1, 3, 5, 8]))}
        if sc['bound'] is None:
            sc['bound'] = {'form': rng.choice(['top', 'limit']), 'n': rng.choice([0, 1, 2, 3])}
    return sc


# ----------------------------------------------------------------------------- execution

def execute(sc):
    core.load_tree()
    counters = {}
    res = {'verdict': 'ok', 'oracle': None, 'counters': counters, 'evals': 0, 'nontrivial': 0, 'steps': 0, 'key': core.key64(sc)}
    digest_parts = []
    nontrivial = False
    for eng in sc['engines']:
        v = check_engine(sc, eng, counters, res, digest_parts)
        if v == 'discard':
            bump(counters, 'discard.' + eng)
            continue
        if isinstance(v, tuple):
            oracle, detail = v
            detail['engine'] = eng
            detail['query'] = build_query(sc)
            case = dict(sc)
            case['engines'] = [eng]
            res.update(verdict='violation', oracle=oracle, detail=detail, case=case)
            break
        if v == 'nontrivial':
            nontrivial = True
    res['nontrivial'] = 1 if nontrivial else 0
    res['digest'] = core.digest(digest_parts)
    return res


def check_engine(sc, eng, counters, res, digest_parts):
    run = RUNNERS[eng]
    if eng == 'js' and sc.get('order') and any('split' in x for x in (sc['order'].get('exprs') or [])):
        # arrays as sort keys are compared through their string form in JavaScript: engine-specific, not generated for rbql-js
        bump(counters, 'discard.js_list_valued_sort_key')
        return 'discard'
    if eng == 'py' and sc.get('distinct') and LIST_ITEM in [it for i, it in enumerate(sc['items']) if i != sc.get('unnest_at')]:
        # a list-valued column is not hashable: DISTINCT over it is an error in the Python engine by construction (fine in JS)
        bump(counters, 'discard.py_distinct_over_list_column')
        return 'discard'
    producer = sc['producer']
    join_rows = sc['join_rows']
    bound = sc.get('bound')
    buffering = is_buffering(sc)
    nontrivial = False

    use_csv = sc.get('writer') == 'csv' and eng == 'py'

    def do(query, prod, max_pulls=None, plain=False):
        r = run(query, prod, join_rows, max_pulls, csv_writer=(use_csv and not plain),
                latency=(sc.get('js_write_latency') if eng == 'js' and prod['type'] == 'finite' else None), truthy=sc.get('writer_truthy'))
        res['evals'] += 1
        res['steps'] += r['pulls'] + len(r['pulls_at_write'])
        digest_parts.append([eng, query, r['outcome'], r['rows'], r['pulls']])
        return r

    if producer['type'] == 'finite':
        bump(counters, 'producer.finite')
        if sc.get('group_by'):
            bump(counters, 'shape.aggregate_with_bound')
            full = do(build_query(sc, bound=False), producer)
            if full['outcome'] != ['ok']:
                bump(counters, 'discard.raw_query_fails')
                return 'discard'
            raw = {'rows': full['rows'], 'pulls': full['pulls']}
            expected = full['rows']
        else:
            raw = do(build_raw_query(sc), producer, plain=True)
            if raw['outcome'] != ['ok']:
                bump(counters, 'discard.raw_query_fails')
                return 'discard'
            if sc.get('order') and DOLLAR_KEY in (sc['order'].get('exprs') or []):
                # a key the model can compute by itself from NR: the engine must sort by the key as written, so the key as the
                # engine evaluates it has to be that (the order model below takes the engine's word for every other expression)
                kr = do('select NR, ' + DOLLAR_KEY, producer, plain=True)
                if kr['outcome'] == ['ok']:
                    for row in kr['rows']:
                        if row[1] != DOLLAR_LITS[row[0] % 3]:
                            return ('order_model', {'got': row, 'outcome': kr['outcome'], 'expected': [row[0], DOLLAR_LITS[row[0] % 3]], 'raw': kr['rows'][:8],
                                                    'note': 'the sort key expression evaluates to something else than what the query text says'})
            full = do(build_query(sc, bound=False), producer)
            try:
                expected = model(sc, raw['rows'])
            except TypeError:
                bump(counters, 'discard.mixed_type_sort_key')
                return 'discard'
            if use_csv:
                expected = render_csv(expected)
                bump(counters, 'writer.real_csv_writer')
            bump(counters, 'pure_clause_cases')
            if full['outcome'] != ['ok'] or not same(full['rows'], expected):
                return ('order_model', {'got': full['rows'], 'outcome': full['outcome'], 'expected': expected, 'raw': raw['rows']})
        if sc.get('order') or sc.get('distinct'):
            if len(expected) < len(raw['rows']) or (sc.get('order') and len(set(core.canon(sort_key_of(sc, r)) for r in raw['rows'])) < len(raw['rows'])):
                nontrivial = True
                bump(counters, 'probe.duplicate_keys_or_records')
        if sc.get('order') and (sc.get('unnest_at') is not None or sc.get('join')) and len(raw['rows']) > raw['pulls'] - 1:
            bump(counters, 'probe.sorted_fanout')
        if bound is None:
            return 'nontrivial' if nontrivial else None
        n = bound['n']
        b = do(build_query(sc), producer)
        if b['outcome'] != ['ok'] or not same(b['rows'], full['rows'][:n]):
            return ('bound_prefix', {'got': b['rows'], 'outcome': b['outcome'], 'expected': full['rows'][:n], 'n': n})
        if n <= len(full['rows']):
            bump(counters, 'probe.bound_reached_finite')
            nontrivial = True
        if not buffering:
            pstar = pstar_of(full, n)
            if pstar is not None:
                pstar = needed_input(do, sc, lambda k: producer['rows'][:k], pstar, n)
            if pstar is not None and pstar < full['pulls']:
                bump(counters, 'fault.bound_reached_with_input_left')
                if b['pulls'] > pstar:
                    return ('consumption', {'pulls': b['pulls'], 'allowed': pstar, 'n': n, 'producer': 'finite', 'shape': 'finite'})
        return 'nontrivial' if nontrivial else None

    # endless / stalling producers: only non-buffering bounded queries can terminate
    if bound is None or buffering:
        return 'discard'
    n = bound['n']
    if producer['type'] == 'endless':
        bump(counters, 'producer.endless_' + producer['shape'])
        ref_prod = {'type': 'finite', 'rows': producer_prefix(producer, L_CAP)}
    else:
        bump(counters, 'producer.stall')
        ref_prod = {'type': 'finite', 'rows': producer['rows']}
    ref = do(build_query(sc, bound=False), ref_prod)
    if ref['outcome'] != ['ok']:
        bump(counters, 'discard.raw_query_fails')
        return 'discard'
    pstar = pstar_of(ref, n)
    if pstar is None:
        bump(counters, 'discard.bound_never_reached')
        return 'discard'
    pstar = needed_input(do, sc, (lambda k: producer_prefix(producer, k)) if producer['type'] == 'endless' else (lambda k: producer['rows'][:k]), pstar, n)
    if producer['type'] == 'endless':
        run_prod = producer
        cap = min(L_CAP, pstar + 8)
    else:
        # the producer has exactly the records the reference needed, then blocks for ever without EOF
        run_prod = {'type': 'stall', 'rows': producer['rows'][:pstar]}
        cap = None
    b = do(build_query(sc), run_prod, cap)
    shape = producer.get('shape', 'stall')
    if b['outcome'] in (['cap'], ['stall']):
        bump(counters, 'fault.overpull_detected')
        return ('consumption', {'pulls': b['pulls'], 'allowed': pstar, 'n': n, 'producer': producer['type'], 'shape': shape, 'outcome': b['outcome'],
                                'output_complete': b['rows'] == ref['rows'][:n]})
    if b['outcome'] != ['ok'] or not same(b['rows'], ref['rows'][:n]):
        return ('bound_prefix', {'got': b['rows'], 'outcome': b['outcome'], 'expected': ref['rows'][:n], 'n': n})
    if b['pulls'] > pstar:
        return ('consumption', {'pulls': b['pulls'], 'allowed': pstar, 'n': n, 'producer': producer['type'], 'shape': shape})
    bump(counters, 'probe.terminated_on_unbounded_input')
    if producer.get('sparse_after') is not None:
        bump(counters, 'probe.sparse_tail_not_pulled')
    return 'nontrivial'


def sort_key_of(sc, r):
    o = sc['order']
    if o.get('exprs'):
        return r[len(r) - len(o['exprs']):]
    return [r[c] for c in o['cols']]


def same(a, b):
    # canonical JSON text, so that 8 and 8.0 (or 1 and True) are different
    return core.canon(a) == core.canon(b)


def needed_input(do, sc, rows_of_prefix, pstar_trace, n):
    """How many input records the first max(n, 1) output records need: the smallest k for which the unbounded query over the
    first k input records already yields that many. The engine's own pull counter at its n-th write (pstar_trace) is only the
    starting point: an engine that reads ahead would otherwise set its own allowance. Outputs per prefix length are monotone,
    so the walk down stops at the first prefix that yields too few."""
    need = max(n, 1)
    k = pstar_trace
    steps = 0
    while k > 0 and steps < 6:
        r = do(build_query(sc, bound=False), {'type': 'finite', 'rows': rows_of_prefix(k - 1)})
        steps += 1
        if r['outcome'] != ['ok'] or len(r['rows']) < need:
            break
        k -= 1
    return k


def pstar_of(ref, n):
    """Pulls the unbounded run had issued when it wrote its n-th output (n >= 1). For n == 0 the
    engine can only notice the bound at its first candidate."""
    paw = ref['pulls_at_write']
    if n == 0:
        return paw[0] if paw else None
    if len(paw) < n:
        return None
    return paw[n - 1]


def confirm(case, result):
    """A violation that involves the Node driver must survive a fresh Node process (see c20.confirm)."""
    jsbridge.stop()
    again = execute(case)
    return again['verdict'] == 'violation' and again['oracle'] == result['oracle']


def signature(sc, result):
    d = result.get('detail') or {}
    extra = ''
    if result['oracle'] == 'order_model':
        extra = '/fanout' if (sc.get('unnest_at') is not None or sc.get('join')) else '/plain'
    return 'C02/%s/%s%s' % (result['oracle'], d.get('engine'), extra)


def sample_view(sc):
    v = dict(sc)
    v['query'] = build_query(sc)
    return v


def shrinks(sc):
    p = sc['producer']
    if 'rows' in p:
        for i in range(len(p['rows'])):
            c = dict(sc)
            c['producer'] = dict(p)
            c['producer']['rows'] = p['rows'][:i] + p['rows'][i + 1:]
            yield c
    if sc.get('join_rows'):
        for i in range(len(sc['join_rows'])):
            c = dict(sc)
            c['join_rows'] = sc['join_rows'][:i] + sc['join_rows'][i + 1:]
            yield c
    if sc.get('where'):
        c = dict(sc)
        c['where'] = None
        yield c
    if sc.get('join'):
        c = dict(sc)
        c['join'] = None
        c['join_rows'] = None
        c['items'] = [x for x in sc['items'] if x != 'b2'] or ['a1']
        if c.get('order'):
            c['order'] = None
        if c.get('unnest_at') is not None and c['unnest_at'] >= len(c['items']):
            c['unnest_at'] = None
        yield c
    if sc.get('distinct'):
        c = dict(sc)
        c['distinct'] = None
        yield c
    if sc.get('unnest_at') is not None:
        c = dict(sc)
        c['unnest_at'] = None
        yield c
    if sc.get('order'):
        c = dict(sc)
        c['order'] = None
        yield c
        if sc['order'].get('exprs'):
            c = dict(sc)
            c['order'] = {k: v for k, v in sc['order'].items() if k != 'exprs'}
            yield c
            if len(sc['order']['exprs']) > 1:
                c = dict(sc)
                c['order'] = dict(sc['order'])
                c['order']['exprs'] = sc['order']['exprs'][:1]
                yield c
        if len(sc['order']['cols']) > 1:
            c = dict(sc)
            c['order'] = dict(sc['order'])
            c['order']['cols'] = sc['order']['cols'][:1]
            yield c
        if sc['order']['dir']:
            c = dict(sc)
            c['order'] = dict(sc['order'])
            c['order']['dir'] = None
            yield c
    if sc.get('spacing'):
        c = dict(sc)
        c.pop('spacing')
        yield c
    if sc.get('kwcase'):
        c = dict(sc)
        c.pop('kwcase')
        yield c
    if sc.get('js_write_latency'):
        c = dict(sc)
        c.pop('js_write_latency')
        yield c
    if sc.get('writer_truthy'):
        c = dict(sc)
        c.pop('writer_truthy')
        yield c
    if sc.get('large') and sc['producer']['type'] == 'finite' and len(sc['producer']['rows']) > 40:
        rows = sc['producer']['rows']
        for cut in (len(rows) // 2, len(rows) - 50, len(rows) - 5):
            if 0 < cut < len(rows):
                c = dict(sc)
                c['producer'] = {'type': 'finite', 'rows': rows[:cut]}
                yield c
    if sc.get('bound'):
        b = sc['bound']
        for nn in (1, b['n'] - 1):
            if 0 <= nn < b['n']:
                c = dict(sc)
                c['bound'] = dict(b)
                c['bound']['n'] = nn
                yield c
    if len(sc['items']) > 1 and not sc.get('order') and sc.get('unnest_at') is None:
        for i in range(len(sc['items'])):
            if sc['items'][i] == 'b2':
                continue
            c = dict(sc)
            c['items'] = sc['items'][:i] + sc['items'][i + 1:]
            yield c
    if p['type'] == 'endless':
        for k, v in (('p2', 1), ('p3', 1), ('k1', 1)):
            if p[k] != v:
                c = dict(sc)
                c['producer'] = dict(p)
                c['producer'][k] = v
                yield c
