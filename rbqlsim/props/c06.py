# C06 - no query ever modifies its sources.
#
# Conservation invariant over histories that include failures. The simulator owns the storage
# seams: tracked open() for the CSV files, a statement trace + total_changes + file hash for
# sqlite, deep snapshots and object identities for Python lists, DataFrame snapshots for pandas,
# and the Node driver's array snapshots for rbql-js. Faults (runtime error at record k, parse
# error, unknown join table, sink break, consumer refusal, undecodable join file, hostile table
# identifiers) are placed inside the operations of a history; the invariant "every source equals
# its initial snapshot and no output aliases an input row" is evaluated after every operation.

import hashlib
import io
import json
import os
import re
import sqlite3
import sys

from .. import core, fsseam, jsbridge, workload
from ..core import bump
from ..streams import SimRawSink, StdShape

ID = 'C06'
LEVEL = 'exploration'
TIERS = {
    'quick': {'runs': 50000, 'deadline_s': 90, 'chunk': 100},
    'thorough': {'runs': 1200000, 'deadline_s': 1200, 'chunk': 200},
}
RULE = ('one run = one seeded world (lists with shared / ragged / None rows, the same data as CSV files, a sqlite file with two tables, two dataframes, JS arrays) and a '
        'history of 1-6 operations (SELECT / UPDATE / JOIN / EXCEPT / UNNEST / aggregate / DISTINCT COUNT, succeeding or failing) each through a seeded front-end (query_table, '
        'engine.query, query_csv, query_dataframe, SqliteRecordIterator + query_sqlite_to_csv, sqlite CLI, rbql-js query_table / query) with seeded faults and hostile table '
        'identifiers; an evaluation is one operation followed by the full invariant check. Non-trivial = the operation produced output or failed after touching a source; '
        'distinct = distinct (world, history).')
COMPONENTS = {
    'real': ['rbql_engine (all templates incl. UPDATE copy, star expansion, EXCEPT)', 'rbql_csv.query_csv + FileSystemCSVRegistry on real files', 'rbql_sqlite on a real sqlite file',
             'rbql_pandas on real DataFrames', 'rbql_main sqlite CLI in-process', 'rbql.js query_table / query through the Node driver'],
    'stub': ['tracked open() / sys.std* / HOME', 'output sinks (breaking), refusing writer', 'sqlite3.connect wrapper installing the statement trace callback'],
}
ASSUMPTIONS = [
    'output_path == input_path is not generated (the caller asked for the overwrite)',
    'sqlite: "only identifiers made of letters, digits and underscore are ever sent" is observed on the statement trace: every statement must match SELECT * FROM <ident>; (plus the CLI\'s own sqlite_master listing)',
    'pandas / sqlite3 internals are trusted to report their own state (DataFrame.equals plus a per-cell (type, repr) snapshot, total_changes, in_transaction)',
]

HOSTILE = ['ta\n', 'tb\n', 't;DROP/**/TABLE/**/ta;--', '"ta"', 'ta)', 'main.ta', '[ta]', 'ta--', 'taé', 'sqlite_master', '', 'ta;', "ta'", 'ta/**/', 'tb,ta', 'TA', 'ta_1', 'ta x', 'nosuch']

QUERIES = [
    ('select', 'select *'),
    ('select', 'select a1, a2'),
    ('select', 'select a.*'),
    ('select', "select a1, * where a2 == 'v1'"),
    ('select', 'select * order by a1 desc'),
    ('select', 'select distinct a2'),
    ('select', 'select distinct a3'),
    ('select', 'select distinct count a2'),
    ('select', 'select top 2 *'),
    ('select', 'select distinct count *'),
    ('select', 'select distinct *'),
    ('select', 'select distinct count a.* order by a1'),
    ('select', 'select a.*, a1 order by a2 limit 3'),
    ('select', 'select *, * where NR > 1'),
    ('except', 'select * except a2'),
    ('except', 'select * except a1, a3'),
    ('except', 'select * except a3'),
    ('except', 'select * except a4'),
    ('aggregate', 'select a2, count(*), ARRAY_AGG(a1) group by a2'),
    ('aggregate', 'select max(a1), min(a2)'),
    ('aggregate', 'select a2, SUM(a3) group by a2'),
    ('aggregate', 'select a1, ARRAY_AGG(a3), SUM(a3) group by a1'),
    ('aggregate', 'select count(*), sum(a3)'),
    ('unnest', "select a1, unnest(a3.split(';'))"),
    ('unnest', 'select a1, unnest(a3)'),
    ('unnest', 'select unnest(a3), a2 where NR > 1 limit 3'),
    ('unnest', 'select top 2 a1, unnest(a3)'),
    ('unnest', 'select a2, unnest(a3) limit 4'),
    ('join', 'select * join {J} on a2 == b1'),
    ('join', 'select a1, b.* left join {J} on a2 == b1'),
    ('join', 'select a.*, b2 join {J} on a2 == b1 order by b2'),
    ('join', 'select * strict left join {J} on a2 == b1'),
    ('update', "update set a2 = 'Z'"),
    ('update', "update set a1 = a2 + 'q', a3 = 'W' where a1 == '1'"),
    ('update', "update a2 = 'Z' where NR == 2"),
    ('update', 'update set a1 = NU'),
    ('update_join', 'update set a1 = b2 join {J} on a2 == b1'),
    ('update_join', "update set a2 = 'K', a3 = b3 left join {J} on a2 == b1"),
    ('py_runtime', 'select int(a1), a2'),
    ('py_runtime', 'update set a2 = int(a1)'),
    ('py_runtime', 'select a2 order by int(a1)'),
    ('parse_error', 'select a1 limit x'),
    ('parse_error', 'update set zz = 1'),
    ('parse_error', 'select a1 +'),
    ('unknown_join', 'select * join {J}x on a2 == b1'),
    # column names: right ones (header worlds) and misspelt ones (a failing query in every world)
    ('named', 'select a.name, a.id'),
    ('named', "update set a.name = 'Q' where a.id == '1'"),
    ('named', 'select a.name, b.jval join {J} on a.name == b.key'),
    ('named_unknown', 'select a.nmae'),
    ('named_unknown', 'select a.id, a.tagg, a.name'),
    ('named_unknown', "update set a.tga = 'Q'"),
    ('named_unknown', 'select a.name, b.jvall join {J} on a.name == b.key'),
    ('named_unknown', 'select a["nmae"], a1'),
    # the WITH modifier in the query text (header handling requested by the query, not by the caller)
    ('with', 'select a1, a2 with (header)'),
    ('with', 'select * with (noheader)'),
    ('with', "update set a2 = 'Z' with (headers)"),
    ('with', 'select a1, b2 join {J} on a2 == b1 with (header)'),
    ('with', 'select distinct a3, a1 with (noheaders)'),
    ('mutating_expr', 'select a1 where [record_a.append(1)] is None'),
    ('mutating_expr', 'select star_fields.append(1)'),
]

FRONTS = ['table', 'iter', 'csv', 'df', 'sqlite', 'sqlite_cli', 'js_table', 'js_iter', 'js_csv', 'cli_interactive']
JOIN_IDS = {'cli_interactive': 'jt.csv', 'js_csv': 'jt.csv', 'table': 'B', 'iter': 'B', 'csv': 'jt.csv', 'df': 'B', 'sqlite': 'tb', 'sqlite_cli': 'tb', 'js_table': 'B', 'js_iter': 'B'}


# ----------------------------------------------------------------------------- generation

def generate(rng, tier, idx):
    nrows = rng.choice([1, 2, 3, 4, 5, 6])
    rows = workload.gen_table(rng, nrows, 3)
    if rng.random() < 0.25:
        rows[rng.randrange(len(rows))][0] = 'bad'          # runtime error at that record for int(a1)
    world = {'rows': rows, 'join_rows': workload.gen_join_table(rng, rng.choice([0, 1, 2, 3, 4])),
             'header': rng.random() < 0.3, 'list_quirks': None, 'wal': rng.random() < 0.3, 'df_variety': rng.random() < 0.4}
    if world['header'] and rng.random() < 0.25:
        world['header_style'] = 'hostile'
    if rng.random() < 0.08:
        world['bom_first'] = True
    if world['header'] and rng.random() < 0.1:
        world['header_len_delta'] = rng.choice([1, -1])
    if not world['df_variety'] and rng.random() < 0.35:
        # all-object frames with missing-value markers of every kind (what read_csv(dtype=object) / read_sql hand over)
        world['df_gaps'] = [[rng.randrange(8), rng.randrange(3), rng.choice(['nan', 'na', 'nat', 'none', 'nan']), rng.choice(['A', 'A', 'B'])] for _ in range(rng.choice([1, 2, 3]))]
    if rng.random() < 0.3:
        world['list_quirks'] = {'shared': rng.random() < 0.5, 'ragged': rng.random() < 0.5, 'none_cell': rng.random() < 0.5, 'ragged_join': rng.random() < 0.5,
                                'list_cells': rng.random() < 0.3, 'tuple_rows': rng.random() < 0.3}
    nops = rng.choice([1, 2, 2, 3, 3, 4, 5, 6])
    ops = []
    for _ in range(nops):
        front = rng.choices(FRONTS, [18, 12, 16, 8, 14, 6, 14, 12, 8, 5])[0]
        kind, q = rng.choice(QUERIES)
        if kind == 'mutating_expr':
            # user code that mutates a row on purpose is the caller's own doing: not generated (kept in the table as documentation)
            kind, q = 'select', 'select *'
        op = {'front': front, 'kind': kind, 'query': q.replace('{J}', JOIN_IDS[front])}
        r = rng.random()
        if front == 'iter' and r < 0.3:
            op['fault'] = {'kind': 'refuse', 'at': rng.choice([0, 1, 2])}
        elif front == 'csv' and r < 0.25:
            op['fault'] = {'kind': 'sink_break', 'budget': rng.choice([0, 1, 5, 12])}
        elif front in ('csv', 'js_csv') and r < 0.4 and '{J}' in q:
            op['fault'] = {'kind': 'bad_join_byte'}
            op['query'] = q.replace('{J}', 'jtbad.csv')
        elif front in ('sqlite', 'sqlite_cli') and r < 0.45:
            ident = rng.choice(HOSTILE)
            if '{J}' in q and rng.random() < 0.6 and ' ' not in ident and ident != '':
                op['query'] = q.replace('{J}', ident)
                op['fault'] = {'kind': 'hostile_join_id', 'ident': ident}
            else:
                op['fault'] = {'kind': 'hostile_input_id', 'ident': ident}
        if front == 'iter' and rng.random() < 0.4:
            op['iter_style'] = rng.choice(['subclass', 'own'])
        if front == 'iter' and rng.random() < 0.3:
            op['shared_writer'] = True
        if front == 'csv':
            op['out_to'] = rng.choice(['file', 'stdout'])
        if front == 'sqlite' and rng.random() < 0.3:
            op['pending_transaction'] = True
        if front == 'js_csv':
            op['bulk_read'] = rng.random() < 0.5
        if front == 'cli_interactive':
            # interactive mode: no --query (typed on stdin), no --output (a default path next to the input is derived)
            op['input_file'] = rng.choice(['input.csv', 'semi.csv', 'semi.csv', 'comma.tsv'])
            op['explicit_delim'] = rng.random() < 0.5
            op['out_format'] = rng.choice(['input', 'csv', 'tsv', 'csv'])
        ops.append(op)
    return {'world': world, 'ops': ops}


# ----------------------------------------------------------------------------- world

def sha(path):
    with open(path, 'rb') as f:
        return hashlib.sha256(f.read()).hexdigest()


def deep(x):
    if isinstance(x, list):
        return [deep(v) for v in x]
    if isinstance(x, tuple):
        return tuple(deep(v) for v in x)
    return x


def make_caller_iterator(t, style, table, column_names):
    """The input iterator a caller passes to rbql.query(): the stock TableIterator, a subclass of it, or a class of the caller's
    own that hands out the rows of the caller's table (the documented extension point: it owes RBQL no copies)."""
    if style == 'subclass':
        class CallerTableIterator(t.engine.TableIterator):
            pass
        return CallerTableIterator(table, column_names)
    if style == 'own':
        engine = t.engine

        class CallerIterator(engine.RBQLInputIterator):
            def __init__(self, rows, names):
                self.rows = rows
                self.names = names
                self.pos = 0

            def get_variables_map(self, query_text):
                variable_map = dict()
                engine.parse_basic_variables(query_text, 'a', variable_map)
                engine.parse_array_variables(query_text, 'a', variable_map)
                if self.names is not None:
                    engine.parse_attribute_variables(query_text, 'a', self.names, 'column names list', variable_map)
                    engine.parse_dictionary_variables(query_text, 'a', self.names, variable_map)
                return variable_map

            def get_record(self):
                if self.pos >= len(self.rows):
                    return None
                self.pos += 1
                return self.rows[self.pos - 1]

            def get_warnings(self):
                return []

            def get_header(self):
                return self.names
        return CallerIterator(table, column_names)
    return t.engine.TableIterator(table, column_names)


def df_cells(df):
    """Every cell as (type name, repr): exact where DataFrame.equals is lenient about missing-value markers."""
    return [[(type(v).__name__, repr(v)) for v in row] for row in df.itertuples(index=False, name=None)]


class World(object):
    def __init__(self, t, spec):
        self.t = t
        self.spec = spec
        self.w = fsseam.reset_work_dir()
        rows = [list(r) for r in spec['rows']]
        jrows = [list(r) for r in spec['join_rows']]
        self.has_list_cells = False
        self.header = ['id', 'name', 'tag'] if spec['header'] else None
        self.jheader = ['key', 'jval', 'jtag'] if spec['header'] else None
        if spec['header'] and spec.get('header_style') == 'hostile':
            # legal column names that are awkward as identifiers: blanks, non-ASCII letters, keywords, names of RBQL's own variables
            self.header = ['i d', 'n\u00e4me', 'select']
            self.jheader = ['from', 'a1', 'NR']
        # python lists (may be quirky)
        self.A = [list(r) for r in rows]
        self.B = [list(r) for r in jrows]
        q = spec.get('list_quirks')
        if q and not spec['header']:
            if q.get('shared') and self.A:
                self.A.append(self.A[0])
            if q.get('ragged') and self.A:
                self.A[-1] = self.A[-1][:2] if not q.get('shared') else self.A[-1]
                self.A.append(['1', 'v1', 'r', 'extra'])
            if q.get('none_cell') and self.A:
                self.A[0][-1] = None
            if q.get('list_cells') and self.A:
                # mutable cells (e.g. the result of an earlier ARRAY_AGG query): outside the property's stated quantifier of
                # string / None cells, included because an in-place operation on such a cell is still a change of the source
                for i, r in enumerate(self.A):
                    r[-1] = [r[0], 'w'] if i % 2 else [r[0], 'w', '']      # (some end in an empty string, as "a;b;".split(";") does)
                    if i % 3 == 2:
                        r[-1] = [[r[0], 'n'], ['w']]      # a list of lists (ARRAY_AGG over list-valued cells)
                self.has_list_cells = True
            if q.get('tuple_rows'):
                # records that are tuples (cursor.fetchall(), zip(...)): the containers themselves must be left alone too
                self.A = [tuple(r) if i % 2 == 0 else r for i, r in enumerate(self.A)]
                self.B = [tuple(r) for r in self.B]
            if q.get('ragged_join') and self.B:
                self.B[0] = self.B[0][:2]
                if len(self.B) > 1:
                    self.B[-1] = type(self.B[-1])(list(self.B[-1]) + ['w'])
        if spec['header'] and spec.get('header_len_delta'):
            # a column-name list that does not fit the records (one name too many / one too few): the query fails, and a
            # failing query must leave the lists it complains about alone too
            if spec['header_len_delta'] > 0:
                self.header = self.header + ['extra']
                self.jheader = self.jheader + ['jextra']
            else:
                self.header = self.header[:-1]
                self.jheader = self.jheader[:-1]
        if spec.get('bom_first'):
            # text decoded as utf-8 rather than utf-8-sig: the very first string of the table (or of its column names) starts with U+FEFF
            if self.header:
                self.header[0] = '\ufeff' + self.header[0]
                self.jheader[0] = '\ufeff' + self.jheader[0]
            else:
                if self.A and isinstance(self.A[0], list) and isinstance(self.A[0][0], str):
                    self.A[0][0] = '\ufeff' + self.A[0][0]
                if self.B and isinstance(self.B[0], list) and isinstance(self.B[0][0], str):
                    self.B[0][0] = '\ufeff' + self.B[0][0]
        self.header_snap = list(self.header) if self.header else None
        self.jheader_snap = list(self.jheader) if self.jheader else None
        self.A_snap = deep(self.A)
        self.B_snap = deep(self.B)
        self.A_ids = [id(r) for r in self.A]
        self.B_ids = [id(r) for r in self.B]
        # csv files
        self.in_path = os.path.join(self.w, 'input.csv')
        self.join_path = os.path.join(self.w, 'jt.csv')
        self.joinbad_path = os.path.join(self.w, 'jtbad.csv')
        with open(self.in_path, 'wb') as f:
            f.write(workload.to_csv(([self.header] if self.header else []) + rows).encode('utf-8'))
        jtext = workload.to_csv(([self.jheader] if self.jheader else []) + jrows).encode('utf-8')
        with open(self.join_path, 'wb') as f:
            f.write(jtext)
        with open(self.joinbad_path, 'wb') as f:
            f.write(jtext[:len(jtext) // 2] + b'\xff' + jtext[len(jtext) // 2:])
        # the same table with other separator / extension combinations (sources as well)
        self.semi_path = os.path.join(self.w, 'semi.csv')
        self.comma_tsv_path = os.path.join(self.w, 'comma.tsv')
        with open(self.semi_path, 'wb') as f:
            f.write(workload.to_csv(([self.header] if self.header else []) + rows, ';').encode('utf-8'))
        with open(self.comma_tsv_path, 'wb') as f:
            f.write(workload.to_csv(([self.header] if self.header else []) + rows, ',').encode('utf-8'))
        self.csv_sources = [self.in_path, self.join_path, self.joinbad_path, self.semi_path, self.comma_tsv_path]
        self.csv_hash = {p: sha(p) for p in self.csv_sources}
        # sqlite
        self.db_path = os.path.join(self.w, 'db.sqlite')
        con = sqlite3.connect(self.db_path)
        con.execute('create table ta (id text, name text, tag text)')
        con.executemany('insert into ta values (?,?,?)', [tuple(r[:3]) for r in rows])
        con.execute('create table tb (key text, jval text, jtag text)')
        con.executemany('insert into tb values (?,?,?)', [tuple(r[:3]) for r in jrows])
        con.commit()
        if spec.get('wal'):
            # write-ahead-log mode is a persistent setting in the file header; close() checkpoints and removes -wal/-shm
            con.execute('PRAGMA journal_mode=WAL;').fetchall()
        con.close()
        self.db_hash = sha(self.db_path)
        self.statements = []
        self.statements_checked = 0
        self.writable_source_opens = 0
        self.con = None                 # opened per operation: no second connection while the code under test has one
        self.api_changes = 0
        self.cli_connections = []
        # pandas
        import pandas
        self.pandas = pandas
        fit = lambda names, n: None if names is None else (list(names) + ['c%d' % i for i in range(n)])[:n]      # (a frame's labels always fit its data)
        self.dfA = pandas.DataFrame([list(r) for r in rows], columns=fit(self.header, 3))
        if spec.get('df_variety'):
            # a numeric column, a non-default index and (for header worlds) an extra float column
            self.dfA[3 if self.header is None else 'num'] = list(range(len(rows)))
            self.dfA.index = [chr(ord('z') - i) for i in range(len(rows))]
            if self.header is not None:
                self.dfA['ratio'] = [i / 2.0 for i in range(len(rows))]
        self.dfB = pandas.DataFrame([list(r) for r in jrows], columns=fit(self.jheader, 3)) if jrows else pandas.DataFrame([['nokey', 'J0', 'm']], columns=fit(self.jheader, 3))
        if spec.get('df_variety') and self.header is None:
            # non-string column labels on both frames, a named column axis on the join frame
            self.dfA.columns = [11, 12, 13, 14][:len(self.dfA.columns)]
            self.dfB.columns = pandas.Index([2019, 2020, 2021], name='year')
        if spec.get('df_gaps'):
            import numpy
            markers = {'nan': numpy.nan, 'na': pandas.NA, 'nat': pandas.NaT, 'none': None}
            self.dfA = self.dfA.astype(object)
            self.dfB = self.dfB.astype(object)
            for r, c, kind, which in spec['df_gaps']:
                df = self.dfA if which == 'A' else self.dfB
                if len(df.index) and len(df.columns):
                    df.iat[r % len(df.index), c % len(df.columns)] = markers[kind]
        self.txn_lost = None
        self.shared_writer = None
        self.shared_out = None
        self.dfA_snap = self.dfA.copy(deep=True)
        self.dfB_snap = self.dfB.copy(deep=True)
        self.dfA_cells = df_cells(self.dfA)
        self.dfB_cells = df_cells(self.dfB)
        # js arrays live in the driver: each js operation ships a copy and gets the invariant report back
        # (worlds with list-valued cells ship them as nested arrays: a source cell is part of the source)
        self.js_rows = json.loads(json.dumps(self.A)) if self.has_list_cells else [list(r) for r in rows]
        self.js_join = [list(r) for r in jrows]

    def open_con(self):
        self.con = sqlite3.connect(self.db_path)
        self.con.set_trace_callback(self.statements.append)
        return self.con

    def close_con(self):
        if self.con is not None:
            try:
                self.api_changes += self.con.total_changes
                self.con.close()
            except Exception:
                pass
            self.con = None

    def close(self):
        self.close_con()
        for c in self.cli_connections:
            try:
                c.close()
            except Exception:
                pass

    # ---- invariants ----
    def check(self, op, tracker, produced):
        """Returns (oracle, detail) for the first broken invariant, else None."""
        if self.A != self.A_snap or [id(r) for r in self.A] != self.A_ids or [type(r) for r in self.A] != [type(r) for r in self.A_snap]:
            return ('list_mutated', {'table': 'A', 'now': self.A, 'before': self.A_snap})
        if self.B != self.B_snap or [id(r) for r in self.B] != self.B_ids or [type(r) for r in self.B] != [type(r) for r in self.B_snap]:
            return ('list_mutated', {'table': 'B', 'now': self.B, 'before': self.B_snap})
        if self.header != self.header_snap or self.jheader != self.jheader_snap:
            return ('list_mutated', {'table': 'column names', 'now': [self.header, self.jheader]})
        out_rows = produced.get('py_rows')
        if out_rows is not None:
            src = self.A + self.B
            for r in out_rows:
                # (an immutable tuple row handed through is no way to reach the source; only mutable rows count)
                if isinstance(r, list) and any(r is s for s in src):
                    return ('list_alias', {'row': r})
            for r in out_rows:
                if isinstance(r, list):
                    for i in range(len(r)):
                        if isinstance(r[i], list) and not self.has_list_cells:
                            r[i].append('MUT')      # (a list cell of the source may legitimately reappear in the output)
                        r[i] = 'MUT'
                    r.append('MUT')
            if self.A != self.A_snap or self.B != self.B_snap:
                return ('list_mutated_via_output', {'A': self.A, 'B': self.B})
        for p in self.csv_sources:
            if sha(p) != self.csv_hash[p]:
                return ('csv_changed', {'file': os.path.basename(p)})
        if tracker is not None:
            for path, mode, _h in tracker.handles:
                if path in self.csv_sources and mode not in ('rb', 'r'):
                    # A writable handle on a source is suspicious but changes nothing by itself: the content
                    # hash above is the oracle, this is only reported as a probe.
                    self.writable_source_opens += 1
        hostile = None
        f = op.get('fault') if isinstance(op, dict) else None
        if f and f.get('ident') and re.fullmatch(r'[A-Za-z0-9_]*', f['ident']) is None:
            hostile = f['ident']
        for st in self.statements[self.statements_checked:]:
            m = re.match(r'^SELECT \* FROM (.*);$', st, re.S)
            if m is not None:
                if re.fullmatch(r'[A-Za-z0-9_]*', m.group(1)) is None:     # fullmatch: '$' would accept a trailing newline
                    return ('sqlite_statement', {'statement': st})
            elif hostile is not None and hostile in st:
                # whatever the statement is, an identifier with other characters reached sqlite verbatim
                return ('sqlite_statement', {'statement': st})
            # other statements (e.g. a PRAGMA a maintainer might add) are judged by their effect: file hash and total_changes below
        self.statements_checked = len(self.statements)
        if self.api_changes != 0 or any(c.changes() != 0 for c in self.cli_connections):
            return ('sqlite_total_changes', {'total_changes': self.api_changes})
        if sha(self.db_path) != self.db_hash:
            return ('sqlite_changed', {})
        if self.txn_lost is not None:
            lost, self.txn_lost = self.txn_lost, None
            return ('sqlite_caller_transaction_ended', lost)
        for name, df, snap in (('A', self.dfA, self.dfA_snap), ('B', self.dfB, self.dfB_snap)):
            if df_cells(df) != (self.dfA_cells if name == 'A' else self.dfB_cells):
                # DataFrame.equals treats every missing-value marker alike (NaN == None == NA); the cells are compared by type and repr
                return ('df_changed', {'frame': name, 'cells': True})
            if not df.equals(snap) or list(df.dtypes) != list(snap.dtypes) or not df.index.equals(snap.index) or not df.columns.equals(snap.columns) \
                    or [type(c) for c in df.columns] != [type(c) for c in snap.columns] or df.columns.name != snap.columns.name or df.index.name != snap.index.name:
                return ('df_changed', {'frame': name})
        res_df = produced.get('df')
        if res_df is not None and len(res_df.index) and len(res_df.columns):
            try:
                res_df.iloc[:, :] = 'MUT'
            except Exception:
                pass
            if not self.dfA.equals(self.dfA_snap) or not self.dfB.equals(self.dfB_snap) or df_cells(self.dfA) != self.dfA_cells or df_cells(self.dfB) != self.dfB_cells:
                return ('df_changed_via_output', {})
        js = produced.get('js')
        if js is not None:
            if js.get('aliased'):
                return ('js_alias', {'rows': js.get('rows')})
            if js.get('row_keys_unchanged') is False:
                return ('js_mutated', {'table': 'row objects (own properties added or removed)'})
            if js.get('headers_unchanged') is False:
                return ('js_mutated', {'table': 'column names', 'after': js.get('headers_after')})
            if js.get('input_unchanged') is False:
                return ('js_mutated', {'table': 'input', 'after': js.get('input_after')})
            if js.get('join_unchanged') is False:
                return ('js_mutated', {'table': 'join'})
        return None


# ----------------------------------------------------------------------------- operations

class TracedConnection(sqlite3.Connection):
    def close(self):
        try:
            self.changes_at_close = self.total_changes
        except Exception:
            pass
        sqlite3.Connection.close(self)

    def changes(self):
        if getattr(self, 'changes_at_close', None) is not None:
            return self.changes_at_close
        return self.total_changes


class RefusingWriter(object):
    def __init__(self, out, at):
        self.out, self.at, self.header = out, at, None

    def set_header(self, h):
        self.header = h

    def write(self, fields):
        if self.at is not None and len(self.out) >= self.at:
            return False
        self.out.append(fields)
        return True

    def finish(self):
        pass

    def get_warnings(self):
        return []


def run_op(t, world, op):
    """Returns (outcome, produced, tracker)."""
    front = op['front']
    fault = op.get('fault')
    warnings = []
    produced = {}
    tracker = None
    outcome = None
    try:
        if front == 'table':
            out = []
            produced['py_rows'] = out
            t.engine.query_table(op['query'], world.A, out, warnings, world.B, world.header, world.jheader)
            outcome = ['ok', len(out)]
        elif front == 'iter':
            out = []
            produced['py_rows'] = out
            it = make_caller_iterator(t, op.get('iter_style'), world.A, world.header)
            if op.get('shared_writer') and not (fault and fault['kind'] == 'refuse'):
                # a caller that collects the results of several queries in one table through one writer object
                if world.shared_writer is None:
                    world.shared_out = []
                    world.shared_writer = t.engine.TableWriter(world.shared_out)
                out = world.shared_out
                produced['py_rows'] = None      # (rows of earlier queries are in there too; aliasing is judged on fresh outputs)
                wr = world.shared_writer
            else:
                wr = RefusingWriter(out, fault['at']) if fault and fault['kind'] == 'refuse' else t.engine.TableWriter(out)
            reg = t.engine.ListTableRegistry([t.engine.ListTableInfo('B', world.B, world.jheader)])
            t.engine.query(op['query'], it, wr, warnings, reg)
            outcome = ['ok', len(out)]
        elif front == 'df':
            res = t.pandas.query_dataframe(op['query'], world.dfA, warnings, world.dfB)
            produced['df'] = res
            outcome = ['ok', len(res.index)]
        elif front == 'js_csv':
            out_path = os.path.join(world.w, 'js_out.csv')
            r = jsbridge.call({'kind': 'query_csv', 'query': op['query'], 'input_path': world.in_path, 'output_path': out_path, 'delim': ',', 'policy': 'quoted',
                               'encoding': 'utf-8', 'with_headers': bool(world.header), 'bulk_read': op.get('bulk_read', False)})
            outcome = r['outcome']
            _js_csv_calls[0] += 1
            if _js_csv_calls[0] % 200 == 0:
                # rbql_csv.query_csv leaves file streams open on its error paths; recycle the Node process so that
                # descriptors do not pile up in a long batch (this is the JS CSV front-end's matter, C15 is about Python)
                jsbridge.stop()
        elif front in ('js_table', 'js_iter'):
            req = {'kind': 'query', 'query': op['query'], 'producer': {'type': 'finite', 'rows': [list(r) for r in world.js_rows]},
                   'join_rows': [list(r) for r in world.js_join], 'mutate_output': True,
                   'api': 'query_table' if front == 'js_table' else 'query'}
            if world.header:
                req['header'] = list(world.header)
                req['join_header'] = list(world.jheader)
            r = jsbridge.call(req)
            produced['js'] = r
            outcome = r['outcome'] + [len(r['rows'])]
        else:
            tracker = fsseam.OpenTracker()
            budget = fault['budget'] if fault and fault['kind'] == 'sink_break' else None
            raw = SimRawSink(budget)
            stdout = StdShape(io.BufferedWriter(raw, buffer_size=16))
            out_path = os.path.join(world.w, 'out.csv')
            argv = None
            table = 'ta'
            if fault and fault['kind'] == 'hostile_input_id':
                table = fault['ident']
            if front == 'sqlite_cli':
                argv = ['rbql', 'sqlite', world.db_path, '--input', table, '--query', op['query'], '--output', out_path]
            stdin = None
            if front == 'cli_interactive':
                name = op.get('input_file', 'input.csv')
                delim = ';' if name == 'semi.csv' else ','
                argv = ['rbql', '--input', os.path.join(world.w, name)]
                if op.get('explicit_delim') or len(world.spec['rows']) < 2:
                    argv += ['--delim', delim, '--policy', 'quoted']
                if op.get('out_format', 'input') != 'input':
                    argv += ['--out-format', op['out_format']]
                if world.header:
                    argv += ['--with-headers']
                stdin = io.TextIOWrapper(io.BytesIO((op['query'] + '\n').encode('utf-8')), encoding='utf-8')
                t.main.history_path = os.path.join(fsseam.scratch_dir(), 'home', '.rbql_py_query_history')
            real_connect = sqlite3.connect

            def traced_connect(*a, **kw):
                kw['factory'] = TracedConnection
                c = real_connect(*a, **kw)
                c.set_trace_callback(world.statements.append)
                c.changes_at_close = None
                world.cli_connections.append(c)
                return c
            with fsseam.ProcessSeam(t, tracker=tracker, stdin=stdin, stdout=stdout, argv=argv) as seam:
                try:
                    if front == 'csv':
                        to_file = op.get('out_to') == 'file' and budget is None
                        if op.get('out_to') == 'file' and budget is not None:
                            tracker.substitutes[out_path] = lambda mode: io.BufferedWriter(raw, buffer_size=16)
                            to_file = True
                        t.csv.query_csv(op['query'], world.in_path, ',', 'quoted', out_path if to_file else None, ',', 'quoted', 'utf-8', warnings, bool(world.header))
                        outcome = ['ok']
                    elif front == 'sqlite':
                        con = world.open_con()
                        staged = 0
                        if op.get('pending_transaction'):
                            # the caller's own uncommitted work on the connection it lends to RBQL: it must still be the caller's
                            # to roll back afterwards (the trace callback is off while the harness itself writes)
                            con.set_trace_callback(None)
                            con.execute("insert into tb values ('staged', 'by', 'caller')")
                            staged = con.total_changes
                            con.set_trace_callback(world.statements.append)
                        try:
                            t.sqlite.query_sqlite_to_csv(op['query'], con, table, out_path, ',', 'quoted_rfc', 'utf-8', warnings)
                            outcome = ['ok']
                        finally:
                            if op.get('pending_transaction'):
                                world.api_changes -= staged
                                con.set_trace_callback(None)
                                # the caller's transaction must still be open and still hold the caller's row, whether the query
                                # succeeded or failed (a commit shows in the file hash; a rollback would show nowhere else)
                                try:
                                    still = con.in_transaction and con.execute("select count(*) from tb where key = 'staged'").fetchone()[0] == 1
                                except Exception:
                                    still = False
                                if not still:
                                    world.txn_lost = {'in_transaction': bool(con.in_transaction)}
                                try:
                                    con.rollback()
                                except Exception:
                                    pass
                            world.close_con()
                    elif front == 'cli_interactive':
                        try:
                            t.main.main()
                            outcome = ['exit', 0]
                        except SystemExit as e:
                            outcome = ['exit', e.code if isinstance(e.code, int) else (0 if e.code is None else 1)]
                    else:
                        sqlite3.connect = traced_connect
                        try:
                            t.main.main()
                            outcome = ['exit', 0]
                        except SystemExit as e:
                            outcome = ['exit', e.code if isinstance(e.code, int) else (0 if e.code is None else 1)]
                        finally:
                            sqlite3.connect = real_connect
                finally:
                    sqlite3.connect = real_connect
            seam.restore_hook()
            tracker.close_all()
    except Exception as e:
        outcome = ['err', type(e).__name__, str(e)[:200]]
    return outcome, produced, tracker


# ----------------------------------------------------------------------------- execution

IN_PROCESS = True          # scenarios run inside the worker; violations are confirmed in a pristine interpreter (rbqlsim/zygote.py)
COLD_START_EVERY = 40      # and every 40th run is executed there in the first place
_js_csv_calls = [0]


def execute(sc):
    t = core.load_tree()
    counters = {}
    res = {'verdict': 'ok', 'oracle': None, 'counters': counters, 'evals': 0, 'nontrivial': 0, 'steps': 0, 'key': core.key64(sc)}
    world = World(t, sc['world'])
    digest_parts = []
    try:
        pre = world.check({'front': 'none'}, None, {})
        if pre is not None:
            raise core.HarnessError('world does not satisfy its own invariant before any operation: %r' % (pre,))
        for i, op in enumerate(sc['ops']):
            outcome, produced, tracker = run_op(t, world, op)
            res['evals'] += 1
            res['steps'] += 1
            digest_parts.append([op['front'], op['query'], outcome])
            bump(counters, 'front.' + op['front'])
            bump(counters, 'kind.' + op['kind'])
            bump(counters, 'outcome.' + str(outcome[0]) + (str(outcome[1]) if outcome[0] == 'exit' else ''))
            if op.get('fault'):
                bump(counters, 'fault.' + op['fault']['kind'])
            if outcome[0] == 'err':
                bump(counters, 'fault.op_failed.' + str(outcome[1]))
            if outcome[0] in ('err',) or outcome == ['exit', 1] or (len(outcome) > 1 and isinstance(outcome[-1], int) and outcome[-1] > 0) or outcome == ['ok']:
                res['nontrivial'] = 1
            v = world.check(op, tracker, produced)
            if v is not None:
                case = {'world': sc['world'], 'ops': sc['ops'][:i + 1]}
                detail = dict(v[1])
                detail.update(op_index=i, front=op['front'], query=op['query'], outcome=outcome, fault=op.get('fault'))
                res.update(verdict='violation', oracle=v[0], detail=detail, case=case)
                break
        if world.statements:
            bump(counters, 'probe.sqlite_statements_seen', len(world.statements))
        if world.writable_source_opens:
            bump(counters, 'probe.source_opened_writable', world.writable_source_opens)
    finally:
        world.close()
    res['digest'] = core.digest(core.hash_neutral(digest_parts))
    return res


def confirm(case, result):
    """A violation that involves the Node driver must survive a fresh Node process (see c20.confirm)."""
    jsbridge.stop()
    again = execute(case)
    return again['verdict'] == 'violation' and again['oracle'] == result['oracle']


def signature(sc, result):
    d = result.get('detail') or {}
    kind = None
    ops = sc.get('ops') or []
    if ops:
        kind = ops[-1].get('kind')
    return 'C06/%s/%s/%s' % (result['oracle'], d.get('front'), kind)


def sample_view(sc):
    return sc


def shrinks(sc):
    ops = sc['ops']
    for i in range(len(ops) - 1):
        c = dict(sc)
        c['ops'] = ops[:i] + ops[i + 1:]
        yield c
    w = sc['world']
    for key in ('rows', 'join_rows'):
        rows = w[key]
        if len(rows) > (1 if key == 'rows' else 0):
            for i in range(len(rows)):
                c = dict(sc)
                c['world'] = dict(w)
                c['world'][key] = rows[:i] + rows[i + 1:]
                yield c
    if w.get('list_quirks'):
        c = dict(sc)
        c['world'] = dict(w)
        c['world']['list_quirks'] = None
        yield c
    gaps = w.get('df_gaps') or []
    for i in range(len(gaps)):
        c = dict(sc)
        c['world'] = dict(w)
        c['world']['df_gaps'] = gaps[:i] + gaps[i + 1:]
        yield c
    if w.get('header_len_delta'):
        c = dict(sc)
        c['world'] = dict(w)
        c['world'].pop('header_len_delta')
        yield c
    if w.get('bom_first'):
        c = dict(sc)
        c['world'] = dict(w)
        c['world'].pop('bom_first')
        yield c
    if w.get('header_style'):
        c = dict(sc)
        c['world'] = dict(w)
        c['world'].pop('header_style')
        yield c
    for flag in ('header', 'wal', 'df_variety'):
        if w.get(flag):
            c = dict(sc)
            c['world'] = dict(w)
            c['world'][flag] = False
            yield c
    last = ops[-1]
    if last.get('fault'):
        c = dict(sc)
        nl = dict(last)
        nl.pop('fault')
        c['ops'] = ops[:-1] + [nl]
        yield c
