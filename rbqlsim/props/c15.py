# C15 - broken pipes, bad bytes and errors are handled cleanly at every point.
#
# The simulator owns: the output sink (breaks at write-call k / after B accepted bytes / at the
# final flush or close), a user writer that refuses at write k, an invalid byte at position p
# crossed with a read schedule, the files opened by the CSV front-end (tracked open), and the
# process globals of the in-process CLI. For each sampled scenario the fault points are
# enumerated.

import io
import os
import sys
import traceback

from .. import core, fsseam, workload
from ..core import bump, EventLog
from ..streams import SimTextSource, SimTextSink, SimRawSource, SimRawSink, StdShape, make_byte_input

ID = 'C15'
LEVEL = 'fault_enumeration'
IN_PROCESS = True          # scenarios run inside the worker; violations are confirmed in a pristine interpreter (rbqlsim/zygote.py)
COLD_START_EVERY = 20      # and one run in 20 is executed there in the first place
TIERS = {
    'quick': {'runs': 11000, 'deadline_s': 100, 'chunk': 25},
    'thorough': {'runs': 400000, 'deadline_s': 1200, 'chunk': 50},
}
RULE = ('one run = one sampled scenario (query shape x front-end x dialect x knobs) whose fault points are enumerated: pipe family: sink breaks at every '
        'write-call index (text sink) or after every accepted-byte budget 0..|full output| (byte sink, strided when the output is long), plus, for stdout front-ends, one run on a real OS pipe whose reader is already gone followed by the flush the interpreter performs at exit; refuse family: user '
        'writer answers False at every write index; badbyte family: one invalid byte at every position x one seeded read schedule; errors family: every '
        'error-raising scenario of a fixed catalogue. An evaluation is one (scenario, fault point) execution of the real code. Non-trivial = the fault '
        'actually fired (sink raised / writer refused / decoder met the byte / error raised); distinct = distinct (scenario key, fault point).')
COMPONENTS = {
    'real': ['rbql_engine.query and the whole writer chain', 'rbql_csv.CSVRecordIterator / CSVWriter / FileSystemCSVRegistry / query_csv',
             'rbql_main.main() run in-process (argparse, run_with_python_csv, error reporting, exit status)', 'rbql_sqlite.query_sqlite_to_csv (errors family)',
             'CPython TextIOWrapper / BufferedWriter / BufferedReader', 'real files in a private directory for inputs, join tables and sqlite'],
    'stub': ['raw byte sink and source under the buffered layers', 'text sink', 'sys.stdin/stdout/stderr/argv, HOME', 'user-supplied output writer (recording, refusing)',
             'in-memory join registry for the stream front-end'],
    'real_os_objects': ['one deterministic real pipe (read end closed before the run) opened as CPython opens sys.stdout, for the exit-status clause'],
    'not_covered': ['a real pipe whose reader goes away in the middle of the output (needs a second process)', 'garbage-collection order at interpreter shutdown', 'interactive preview mode', 'rbql_ipython'],
}
ASSUMPTIONS = [
    '"stops promptly" is made precise as: after the first failed write at most one further input pull and at most one further write attempt',
    'a bounded query that ends before the reader consumed the damaged byte may succeed; its output must equal the run on undamaged data with the same schedule',
    'the fault-free run of the same real code is the reference for the emitted prefix',
    'TextIOWrapper._CHUNK_SIZE of the wrapper created by CSVWriter is lowered by the harness in some runs so that a break surfaces inside write() without a >8 KiB output',
]

_state = {'init': False}


class Sim(object):
    log = None
    knobs = {}


def ensure_init():
    t = core.load_tree()
    if _state['init']:
        return t
    base_it = t.csv.CSVRecordIterator
    base_wr = t.csv.CSVWriter

    class ICSVIterator(base_it):
        def get_record(self):
            if Sim.log is not None:
                Sim.log.add('it:' + str(getattr(self, 'table_name', '?')), 'get_record')
            return base_it.get_record(self)

    class ICSVWriter(base_wr):
        def __init__(self, *a, **kw):
            base_wr.__init__(self, *a, **kw)
            twc = Sim.knobs.get('tw_chunk')
            if twc and isinstance(self.stream, io.TextIOWrapper):
                self.stream._CHUNK_SIZE = twc

        def set_header(self, header):
            if Sim.log is not None:
                Sim.log.add('writer', 'set_header', header is not None)
            self._sim_in_header = True
            try:
                return base_wr.set_header(self, header)
            finally:
                self._sim_in_header = False

        def write(self, fields):
            r = base_wr.write(self, fields)
            if Sim.log is not None:
                # the header line is written through write() by set_header(), which discards the result
                Sim.log.add('writer', 'header_write' if getattr(self, '_sim_in_header', False) else 'write', bool(r))
            return r

        def finish(self):
            if Sim.log is not None:
                Sim.log.add('writer', 'finish')
            return base_wr.finish(self)

    ICSVIterator.__name__ = 'CSVRecordIterator'
    ICSVWriter.__name__ = 'CSVWriter'
    t.csv.CSVRecordIterator = ICSVIterator
    t.csv.CSVWriter = ICSVWriter
    _state['base_it'] = base_it
    _state['base_wr'] = base_wr

    class ITableIterator(t.engine.TableIterator):
        def get_record(self):
            if Sim.log is not None:
                Sim.log.add('it:' + self.variable_prefix, 'get_record')
            return t.engine.TableIterator.get_record(self)
    _state['ITableIterator'] = ITableIterator
    _state['init'] = True
    return t


def worker_init():
    ensure_init()


# ----------------------------------------------------------------------------- generation

JOIN_FILE = 'jt.csv'


def gen_tables(rng, shape_flags, nonascii):
    nrows = rng.choice([0, 1, 2, 3, 4, 5, 6, 8])
    ncols = max(shape_flags.get('cols', 1), rng.choice([2, 3, 3]))
    rows = workload.gen_table(rng, nrows, ncols, nonascii=nonascii)
    join_rows = None
    if shape_flags.get('join'):
        join_rows = workload.gen_join_table(rng, rng.choice([0, 1, 2, 3, 4]), fanout=not shape_flags.get('unique_join'))
    return rows, join_rows


def gen_query(rng, join_id):
    shapes = workload.select_shapes(join_id) + workload.update_shapes(join_id)
    name, q, flags = rng.choice(shapes)
    flags = dict(flags)
    if q.startswith('select') and rng.random() < 0.3:
        q = workload.add_bound(rng, q, rng.choice([0, 1, 2, 3]))
        flags['bounded'] = True
    return name, q, flags


def gen_sink(rng, enc):
    sink = _gen_sink(rng, enc)
    if rng.random() < 0.2:
        # how the stream says that its reader has gone: BrokenPipeError without an errno (a wrapper object), or with ESHUTDOWN
        sink['flavor'] = rng.choice(['noerrno', 'eshutdown'])
    return sink


def _gen_sink(rng, enc):
    if enc is None:
        return {'type': 'text', 'close_on_finish': rng.random() < 0.3}
    return {'type': 'bytes', 'shape': rng.choice(['plain', 'std']), 'bufsize': rng.choice([1, 4, 16, 64, 8192]),
            'tw_chunk': rng.choice([None, 1, 8, 32, 64]), 'close_on_finish': rng.random() < 0.35}


def generate(rng, tier, idx):
    family = rng.choices(['pipe', 'refuse', 'badbyte', 'errors'], [45, 15, 25, 15])[0]
    sc = {'kind': 'batch', 'family': family}
    if family == 'refuse':
        name, q, flags = gen_query(rng, 'B')
        rows, join_rows = gen_tables(rng, flags, False)
        sc.update(front='userwriter', shape=name, query=q, rows=rows, join_rows=join_rows,
                  header=(workload.HEADER[:max(len(r) for r in rows)] if rows and rng.random() < 0.3 and len(set(len(r) for r in rows)) == 1 else None),
                  poison=(rng.randrange(len(rows)) if rows and rng.random() < 0.2 else None))
        if rng.random() < 0.12:
            sc['in_thread'] = True
        return sc
    if family == 'errors':
        sc.update(gen_error_scenario(rng))
        return sc
    front = rng.choice(['stream', 'stream', 'file', 'cli'])
    enc = rng.choice([None, 'utf-8', 'utf-8', 'latin-1']) if front == 'stream' else rng.choice(['utf-8', 'utf-8', 'latin-1'])
    if family == 'badbyte':
        enc = 'utf-8'
    join_id = JOIN_FILE if front != 'stream' else 'JT'
    name, q, flags = gen_query(rng, join_id)
    pick = rng.random()
    if family == 'badbyte' and pick < 0.5:
        q = 'select *' if rng.random() < 0.5 else workload.add_bound(rng, 'select *', rng.choice([1, 2]))
        name, flags = 'stream', {'cols': 1, 'bounded': 'top' in q or 'limit' in q}
    elif family == 'badbyte' and pick < 0.7:
        # two tables: the damaged byte may be in either, and the JOIN table is read while the query is already under way
        joins = [sh for sh in workload.select_shapes(join_id) + workload.update_shapes(join_id) if sh[2].get('join')]
        name, q, flags = rng.choice(joins)
        flags = dict(flags)
    rows, join_rows = gen_tables(rng, flags, nonascii=(enc != 'latin-1' and rng.random() < 0.4))
    with_headers = rng.random() < (0.45 if flags.get('join') else 0.25)
    policy = rng.choice(['quoted', 'simple', 'quoted_rfc'])
    in_rows = ([workload.HEADER[:max([len(r) for r in rows] + [1])]] if with_headers else []) + rows
    jrows = None
    if join_rows is not None:
        jrows = ([['key', 'jval', 'jtag']] if with_headers else []) + join_rows
    if policy == 'quoted_rfc' and rng.random() < 0.5:
        # multi-line quoted fields: a record then spans several physical lines (and several reads)
        for r in in_rows[(1 if with_headers else 0):]:
            if len(r) >= 2 and rng.random() < 0.6:
                r[1] = '"' + r[1] + rng.choice(['\n', '\n\n', '\nmore\n']) + 'tail"'
    sc.update(front=front, shape=name, query=q, enc=enc, policy=policy, delim=',', with_headers=with_headers,
              in_text=workload.to_csv(in_rows, ',', rng.choice(['\n', '\n', '\r\n']), rng.random() < 0.8),
              join_text=(None if jrows is None else workload.to_csv(jrows, ',')),
              bounded=bool(flags.get('bounded')) or ' top ' in (' ' + q.lower()) or ' limit ' in q.lower(), buffered=bool(flags.get('buffered')))
    sc['color'] = rng.random() < 0.12
    if front == 'stream':
        sc['sink'] = gen_sink(rng, enc)
    else:
        sc['in_from'] = rng.choice(['stdin', 'file'])
        sc['stdin_errors'] = rng.choice(['strict', 'surrogateescape'])
        sc['out_to'] = rng.choice(['stdout', 'stdout', 'file'])
        sc['sink'] = {'type': 'bytes', 'shape': 'std', 'bufsize': rng.choice([1, 16, 64, 8192]), 'tw_chunk': rng.choice([None, 1, 8, 32, 64])}
        if sc['out_to'] == 'file':
            sc['color'] = False
        if front == 'cli':
            sc['out_format'] = rng.choice(['input', 'input', 'csv', 'tsv'])
    if (family == 'badbyte' and rng.random() < 0.12) or (family == 'pipe' and front != 'stream' and rng.random() < 0.1):
        # input well beyond TextIOWrapper's 8 KiB chunk: the damaged byte may sit in a later chunk
        lines = sc['in_text'].split('\n')
        body = [l for l in lines[(1 if with_headers else 0):] if l]
        if body:
            reps = 12000 // max(1, sum(len(l) + 1 for l in body)) + 1
            sc['in_text'] = '\n'.join(lines[:(1 if with_headers else 0)] + body * reps) + '\n'
    if family == 'pipe' and front != 'stream' and rng.random() < 0.12:
        # the sqlite front-ends writing CSV to stdout
        sc['front'] = rng.choice(['sqlite', 'sqlite_cli'])
        sc['out_to'] = 'stdout'
        sc['in_from'] = 'file'
        sc['with_headers'] = False
        sc['rows'] = [r[:3] + [''] * (3 - len(r)) for r in rows] or [['1', 'v1', 'r']]
        sc['join_rows'] = join_rows or workload.gen_join_table(rng, 2)
        sc['color'] = False
    if family == 'badbyte':
        target = 'join' if (sc['join_text'] and rng.random() < 0.35) else 'input'
        data_len = len((sc['join_text'] if target == 'join' else sc['in_text']).encode('utf-8'))
        sc['bad'] = {'where': target, 'byte': rng.choice([0xFF, 0xFF, 0x80, 0xC3, 0xF0]),
                     'pieces': random_pieces(rng, data_len), 'bufsize': rng.choice([1, 2, 4, 16, 8192]),
                     'chunk_size': rng.choice([1, 3, 8, 1024])}
        if front != 'stream' and target == 'input' and sc['in_from'] == 'file' and rng.random() < 0.5:
            sc['bad']['pieces'] = None      # read the real file, no schedule control
        if front == 'stream' and rng.random() < 0.3:
            # the caller hands over a text stream of its own that decodes on demand and leaves line ends alone
            # (open(path, encoding='utf-8', newline='')); CR line ends, so that the one-character look-ahead after a CR is a read too
            sc['bad']['text_layer'] = {'tw_chunk': rng.choice([1, 2, 7, 64, 8192])}
            sc['bad']['line_sep'] = rng.choice(['\r', '\r', '\n'])
    if sc['front'] in ('stream', 'file', 'sqlite') and rng.random() < 0.12:
        sc['in_thread'] = True      # the library call is made from a thread other than the main one
    if sc['front'] in ('file', 'cli') and JOIN_FILE in sc['query'] and rng.random() < 0.4:
        # legal file names that are awkward inside messages and templates: braces, percent signs
        sc['join_name'] = rng.choice(['jt{0}.csv', 'j{x}t.csv', 'jt}.csv', 'jt%s.csv', 'j%dt.csv', 'jt{.csv'])
        sc['query'] = sc['query'].replace(JOIN_FILE, sc['join_name'])
    return sc


def random_pieces(rng, n):
    if n == 0:
        return []
    p = rng.choice([0.05, 0.2, 0.5, 1.0])
    pieces = []
    cur = 1
    for _ in range(n - 1):
        if rng.random() < p:
            pieces.append(cur)
            cur = 1
        else:
            cur += 1
    pieces.append(cur)
    return pieces


ERROR_NAMES = ['success', 'success_join', 'parse_limit', 'parse_noselect', 'parse_update_field', 'syntax', 'runtime_k', 'unknown_join',
               'join_decode', 'input_decode', 'rfc_quote', 'header_width', 'monocolumn', 'missing_input', 'missing_outdir',
               'nonascii_latin1', 'strict_left_join', 'join_runtime', 'aggregate_misuse', 'sqlite_ok', 'sqlite_bad_table', 'sqlite_runtime',
               'sqlite_missing_outdir', 'no_field', 'pipe_on_file', 'init_file_raises', 'init_file_ok', 'table_names_lookup', 'table_names_lookup_decode', 'device_error_on_output', 'device_error_on_output']


def gen_error_scenario(rng):
    name = rng.choice(ERROR_NAMES)
    front = rng.choice(['file', 'cli']) if not name.startswith('sqlite') else rng.choice(['sqlite', 'sqlite_cli'])
    rows = workload.gen_table(rng, rng.choice([1, 2, 3, 5]), 3)
    join_rows = workload.gen_join_table(rng, rng.choice([1, 2, 4]))
    sc = {'front': front, 'error': name, 'shape': 'errors', 'enc': 'utf-8', 'policy': 'quoted', 'delim': ',', 'with_headers': False,
          'query': 'select a1, a2', 'in_from': 'file', 'out_to': rng.choice(['file', 'file', 'stdout']),
          'sink': {'type': 'bytes', 'shape': 'std', 'bufsize': 8192, 'tw_chunk': None}, 'bounded': False, 'buffered': False,
          'in_text': workload.to_csv(rows), 'join_text': workload.to_csv(join_rows), 'k': rng.randrange(len(rows))}
    q_join = 'select a1, b2 join %s on a2 == b1' % JOIN_FILE
    if name == 'success_join':
        sc['query'] = q_join
    elif name == 'parse_limit':
        sc['query'] = 'select a1 limit x'
    elif name == 'parse_noselect':
        sc['query'] = 'selec a1'
    elif name == 'parse_update_field':
        sc['query'] = 'update set zz = 1'
    elif name == 'syntax':
        sc['query'] = rng.choice(['select a1 +', 'select (a1', q_join + ' where a1 =='])
    elif name == 'runtime_k':
        rows[sc['k']][0] = 'bad'
        sc['in_text'] = workload.to_csv(rows)
        sc['query'] = rng.choice(['select int(a1)', 'select int(a1), b2 join %s on a2 == b1' % JOIN_FILE, 'select a2 order by int(a1)', 'select max(int(a1))'])
    elif name == 'unknown_join':
        sc['query'] = 'select a1 join nosuch.csv on a1 == b1'
    elif name == 'join_decode':
        sc['query'] = q_join
        sc['join_bad_pos'] = rng.randrange(max(1, len(sc['join_text'].encode('utf-8'))))
    elif name == 'input_decode':
        sc['query'] = rng.choice(['select *', q_join])
        sc['input_bad_pos'] = rng.randrange(max(1, len(sc['in_text'].encode('utf-8'))))
    elif name == 'rfc_quote':
        sc['policy'] = 'quoted_rfc'
        lines = sc['in_text'].split('\n')
        lines.insert(min(sc['k'], len(lines) - 1), '1,"ab"c,2')
        sc['in_text'] = '\n'.join(lines)
        sc['query'] = rng.choice(['select *', q_join])
    elif name == 'header_width':
        sc['with_headers'] = True
        sc['in_text'] = 'id,name,tag\n' + sc['in_text'] + '1,v1,r,extra\n'
        sc['query'] = 'select *'
        sc['join_text'] = 'key,jval,jtag\n' + sc['join_text']
    elif name == 'monocolumn':
        sc['out_policy'] = 'monocolumn'
        sc['front'] = 'file'
    elif name == 'missing_input':
        sc['missing_input'] = True
    elif name == 'missing_outdir':
        sc['missing_outdir'] = True
        sc['out_to'] = 'file'
    elif name == 'nonascii_latin1':
        sc['enc'] = 'latin-1'
        sc['query'] = "select a1, 'é'"
    elif name == 'strict_left_join':
        sc['query'] = 'select a1, b2 strict left join %s on a2 == b1' % JOIN_FILE
    elif name == 'join_runtime':
        sc['query'] = 'select a1, b2 join %s on a2 == b5' % JOIN_FILE
    elif name == 'aggregate_misuse':
        sc['query'] = 'select int(max(a1)) + 1'
    elif name == 'no_field':
        sc['query'] = 'select a1, b2 join %s on a9 == b1' % JOIN_FILE
    elif name == 'pipe_on_file':
        sc['out_to'] = 'file'
        sc['file_budget'] = rng.choice([0, 1, 5])
        sc['query'] = rng.choice(['select *', q_join, 'select a1 order by a1'])
    elif name in ('init_file_raises', 'init_file_ok'):
        sc['front'] = 'cli'
        sc['init_code'] = 'def foo(x):\n    return x + "!"\n' + ('raise ValueError("boom")\n' if name == 'init_file_raises' else '')
        sc['query'] = 'select foo(a1)'
    elif name in ('table_names_lookup', 'table_names_lookup_decode'):
        # JOIN table found through ~/.rbql_table_names (HOME is the private directory)
        sc['query'] = 'select a1, b2 join myalias on a2 == b1'
        sc['table_alias'] = 'myalias'
        if name == 'table_names_lookup_decode':
            sc['join_bad_pos'] = rng.randrange(max(1, len(sc['join_text'].encode('utf-8'))))
    elif name == 'device_error_on_output':
        # the output device fails with something other than EPIPE (disk full, I/O error) at some byte: an IO-error path
        sc['out_to'] = 'file'
        sc['file_budget'] = rng.choice([0, 1, 3, 7, 10, 20])
        sc['device_errno'] = rng.choice([28, 5, 122])
        # small text chunks into a somewhat larger byte buffer: the device error then strikes inside write() while earlier bytes
        # are still waiting in the BufferedWriter, so the close in the clean-up path fails a second time
        sc['sink'] = {'type': 'bytes', 'shape': 'std', 'bufsize': rng.choice([16, 16, 64, 8192]), 'tw_chunk': rng.choice([4, 8, 8, None])}
        sc['query'] = rng.choice(['select *', q_join, 'select a1 order by a1', q_join, 'select a2, count(*) group by a2'])
    elif name == 'sqlite_bad_table':
        sc['sqlite_table'] = rng.choice(['nosuch', 'ta;drop table ta', 'ta x'])
    elif name == 'sqlite_runtime':
        rows[sc['k']][0] = 'bad'
        sc['query'] = 'select int(a1)'
    elif name == 'sqlite_missing_outdir':
        sc['missing_outdir'] = True
        sc['out_to'] = 'file'
    if name.startswith('sqlite'):
        sc['rows'] = rows
        sc['join_rows'] = join_rows
    return sc


# ----------------------------------------------------------------------------- one execution

def tree_frames(tb):
    out = []
    for fs in traceback.extract_tb(tb):
        if '/rbql/' in fs.filename or fs.filename == '<main loop>':
            out.append((os.path.basename(fs.filename), fs.name, (fs.line or '').strip()))
    return out


def analyse_log(log):
    """Counts relative to the first failed record/header write of the CSV writer (or refusing user writer)."""
    first_fail = None
    for e in log.events:
        if e[1] == 'writer' and e[2] == 'write' and e[3] is False:
            first_fail = e[0]
            break
    pulls_after = 0
    writes_after = 0
    if first_fail is not None:
        for e in log.events[first_fail + 1:]:
            if e[2] == 'get_record' and e[1] in ('it:input', 'it:a'):
                pulls_after += 1
            if e[1] == 'writer' and e[2] == 'write':
                writes_after += 1
    return first_fail, pulls_after, writes_after


class RecordingWriter(object):
    """User-supplied writer: records the call protocol, may refuse from write k on."""

    def __init__(self, base, refuse_at=None):
        self.refuse_at = refuse_at
        self.nwrites = 0
        self.rows = []
        self.header = None

    def set_header(self, header):
        Sim.log.add('writer', 'set_header', header is not None)
        self.header = header

    def write(self, fields):
        k = self.nwrites
        self.nwrites += 1
        ok = not (self.refuse_at is not None and k >= self.refuse_at)
        if ok:
            self.rows.append(list(fields))
        Sim.log.add('writer', 'write', ok)
        return ok

    def finish(self):
        Sim.log.add('writer', 'finish')

    def get_warnings(self):
        return []


def apply_bad_byte(data, pos, byte):
    data = bytearray(data)
    if pos >= len(data):
        return None
    data[pos] = byte
    data = bytes(data)
    try:
        data.decode('utf-8')
    except UnicodeDecodeError:
        return data
    return None     # still valid UTF-8: not a fault


def _open_fds():
    out = {}
    try:
        names = os.listdir('/proc/self/fd')
    except OSError:
        return out
    for n in names:
        try:
            out[n] = os.readlink('/proc/self/fd/' + n)
        except OSError:
            pass      # the descriptor of the listing itself
    return out


def run_once(sc, fault):
    """Execute the scenario under one fault (or None). Returns an observation dict (JSON-able)."""
    t = ensure_init()
    fds_before = _open_fds()
    log = EventLog(cap=100000)
    Sim.log = log
    sink_cfg = sc.get('sink') or {}
    Sim.knobs = {'tw_chunk': sink_cfg.get('tw_chunk')}
    if fault and fault.get('kind') == 'real_pipe_reader_gone':
        Sim.knobs = {'tw_chunk': None}    # the real thing: CPython's default sizes everywhere
    obs = {'outcome': None, 'out': None, 'stderr': '', 'leaked': [], 'fired': False}
    front = sc['front']
    try:
        if front == 'userwriter':
            _run_userwriter(t, sc, fault, obs)
        elif front == 'stream':
            _run_stream(t, sc, fault, obs)
        else:
            _run_process(t, sc, fault, obs)
    finally:
        Sim.log = None
    # descriptors opened behind the back of open() (os.open, dup, ...) and never closed: compare /proc/self/fd
    extra = {n: p for n, p in _open_fds().items() if n not in fds_before}
    if extra:
        import gc
        gc.collect()
        extra = {n: p for n, p in _open_fds().items() if n not in fds_before}
    obs['fd_leak'] = sorted(set(extra.values()))
    for n in extra:
        try:
            os.close(int(n))       # keep the harness process itself from running out of descriptors
        except (OSError, ValueError):
            pass
    # the private directory's name differs from process to process: keep it out of outcomes and digests
    wdir = fsseam.work_dir()
    if isinstance(obs.get('stderr'), str):
        obs['stderr'] = obs['stderr'].replace(wdir, '<W>')
    if obs.get('outcome'):
        obs['outcome'] = [x.replace(wdir, '<W>') if isinstance(x, str) else x for x in obs['outcome']]
    first_fail, pulls_after, writes_after = analyse_log(log)
    obs['first_fail'] = first_fail is not None
    obs['pulls_after_fail'] = pulls_after
    obs['writes_after_fail'] = writes_after
    obs['writer_trace'] = [(e[2], e[3] if len(e) > 3 else None) for e in log.events if e[1] == 'writer']
    obs['steps'] = len(log)
    return obs


def _invoke(sc, fn):
    """Call fn(); with the in_thread knob from a thread other than the main one (a library is called from worker threads
    too: whatever it does on a fault path has to be legal there). Exceptions come back with their traceback."""
    if not sc.get('in_thread'):
        return fn()
    import threading
    box = {}

    def body():
        try:
            box['value'] = fn()
        except BaseException as e:
            box['exc'] = e

    th = threading.Thread(target=body, name='caller-worker')
    th.start()
    th.join()
    if 'exc' in box:
        raise box['exc']
    return box.get('value')


def _sigpipe_guard(obs):
    """CPython ignores SIGPIPE from start-up on; that is what turns a write to a dead pipe into BrokenPipeError. If the code
    under test has changed the disposition, the next such write would kill the process (the harness too): note and restore."""
    import signal
    now = signal.getsignal(signal.SIGPIPE)
    if now != signal.SIG_IGN:
        obs['sigpipe_disposition'] = repr(now)
        signal.signal(signal.SIGPIPE, signal.SIG_IGN)


def _capture_exc(t, obs, e, tb):
    frames = tree_frames(tb)
    cls = type(e).__name__
    obs['outcome'] = ['err', cls, str(e)[:300]]
    obs['where'] = frames[-1][1] if frames else None
    obs['where_line'] = frames[-1][2] if frames else None


def _run_userwriter(t, sc, fault, obs):
    rows = [list(r) for r in sc['rows']]
    if sc.get('poison') is not None and rows:
        rows[sc['poison']][0] = 'bad'
    query = sc['query']
    if sc.get('poison') is not None:
        query = query.replace('select ', 'select int(a1), ', 1) if query.startswith('select ') and 'distinct' not in query and 'top' not in query else query
    header = sc.get('header')
    it = _state['ITableIterator'](rows, header)
    refuse_at = fault['at'] if fault and fault['kind'] == 'refuse' else None
    wr = RecordingWriter(None, refuse_at)
    reg = None
    if sc.get('join_rows') is not None:
        jheader = ['key', 'jval', 'jtag'] if header is not None else None
        jr = [list(r) for r in sc['join_rows']]

        class Reg(t.engine.RBQLTableRegistry):
            def get_iterator_by_table_id(self, table_id, alias):
                Sim.log.add('registry', 'get_iterator', table_id)
                return _state['ITableIterator'](jr, jheader, True, alias)
        reg = Reg()
    warnings = []
    with fsseam.ProcessSeam(t) as seam:
        try:
            _invoke(sc, lambda: t.engine.query(query, it, wr, warnings, reg))
            obs['outcome'] = ['ok']
        except Exception as e:
            _capture_exc(t, obs, e, e.__traceback__)
    seam.restore_hook()
    obs['out'] = wr.rows
    obs['fired'] = refuse_at is not None and wr.nwrites > refuse_at
    obs['warnings'] = warnings


def _make_sink(sink_cfg, fault):
    """Returns (stream given to the code under test, accessor for accepted output, raw or sink object)."""
    if sink_cfg['type'] == 'text':
        at = fault['at'] if fault and fault['kind'] == 'sink_break_call' else None
        s = SimTextSink(break_at_call=at, log=Sim.log, flavor=sink_cfg.get('flavor'))
        return s, (lambda: s.getvalue()), s
    budget = fault['budget'] if fault and fault['kind'] == 'sink_break_bytes' else None
    raw = SimRawSink(budget, log=Sim.log, flavor=sink_cfg.get('flavor'))
    buffered = io.BufferedWriter(raw, buffer_size=max(1, sink_cfg.get('bufsize', 8192)))
    stream = StdShape(buffered) if sink_cfg.get('shape') == 'std' else buffered
    return stream, (lambda: bytes(raw.accepted).hex()), raw


def _input_bytes(sc, fault, which):
    text = sc['in_text'] if which == 'input' else sc['join_text']
    if fault and fault['kind'] in ('bad_byte', 'clean_schedule') and (sc.get('bad') or {}).get('line_sep') == '\r':
        text = text.replace('\n', '\r')      # same length: fault positions keep their meaning
    data = text.encode('utf-8')
    if fault and fault['kind'] == 'bad_byte' and fault['where'] == which:
        data = apply_bad_byte(data, fault['pos'], fault['byte'])
    return data


def _run_stream(t, sc, fault, obs):
    enc = sc['enc']
    bad = sc.get('bad') if (fault and fault['kind'] in ('bad_byte', 'clean_schedule')) else None
    in_data = _input_bytes(sc, fault, 'input')
    raws = {}

    def make_input(data, which, table_name):
        if enc is None:
            text = data.decode('utf-8')
            return SimTextSource(text, [len(text)] if text else [])
        if bad is not None and bad['where'] == which and bad.get('pieces') is not None:
            stream, raw = make_byte_input(data, bad['pieces'], bad['bufsize'], 'plain', log=Sim.log)
            if bad.get('text_layer'):
                stream = io.TextIOWrapper(stream, encoding='utf-8', newline='')
                stream._CHUNK_SIZE = bad['text_layer']['tw_chunk']
        else:
            stream, raw = make_byte_input(data, [len(data)] if data else [], 8192, 'plain')
        raws[which] = raw
        return stream

    def enc_of(which):
        return None if (bad is not None and bad['where'] == which and bad.get('pieces') is not None and bad.get('text_layer')) else enc
    out_stream, get_out, sink = _make_sink(sc['sink'], fault)
    warnings = []
    with fsseam.ProcessSeam(t) as seam:
        try:
            chunk_size = bad['chunk_size'] if bad is not None else 1024
            it = t.csv.CSVRecordIterator(make_input(in_data, 'input', 'input'), enc_of('input'), sc['delim'], sc['policy'], has_header=sc['with_headers'], chunk_size=chunk_size)
            wr = t.csv.CSVWriter(out_stream, sc['sink'].get('close_on_finish', False), enc, sc['delim'], sc['policy'], colorize_output=bool(sc.get('color')))
            reg = None
            if sc['join_text'] is not None:
                jdata = _input_bytes(sc, fault, 'join')

                class Reg(t.engine.RBQLTableRegistry):
                    def get_iterator_by_table_id(self, table_id, alias):
                        return t.csv.CSVRecordIterator(make_input(jdata, 'join', table_id), enc_of('join'), sc['delim'], sc['policy'], has_header=sc['with_headers'],
                                                       table_name=table_id, variable_prefix=alias)
                reg = Reg()
            _invoke(sc, lambda: t.engine.query(sc['query'], it, wr, warnings, reg))
            obs['outcome'] = ['ok']
        except Exception as e:
            _capture_exc(t, obs, e, e.__traceback__)
        _sigpipe_guard(obs)
        obs['stdout_closed_by_writer'] = bool(seam.stdout.closed)
    it = wr = reg = None
    obs['out'] = get_out()
    seam.restore_hook()
    obs['unraisable'] = len(seam.unraisable)
    obs['warnings'] = warnings
    if isinstance(sink, SimTextSink):
        obs['fired'] = sink.broken_seen > 0
        obs['sink_raises'] = sink.broken_seen
        obs['sink_calls'] = sink.calls
        obs['out_kind'] = 'text'
    else:
        obs['fired'] = sink.raised > 0
        obs['sink_raises'] = sink.raised
    if fault and fault['kind'] == 'bad_byte':
        raw = raws.get(fault['where'])
        obs['consumed_bad'] = raw is not None and raw.pos > fault['pos']
        obs['fired'] = bool(obs['consumed_bad'])
    elif fault and fault['kind'] == 'clean_schedule':
        raw = raws.get(fault['where'])
        obs['consumed'] = raw.pos if raw is not None else None


def _build_sqlite(w, sc):
    import sqlite3
    path = os.path.join(w, 'db.sqlite')
    con = sqlite3.connect(path)
    con.execute('create table ta (id text, name text, tag text)')
    con.executemany('insert into ta values (?,?,?)', [tuple(r[:3]) for r in sc['rows']])
    con.execute('create table tb (key text, jval text, jtag text)')
    con.executemany('insert into tb values (?,?,?)', [tuple(r[:3]) for r in sc['join_rows']])
    con.commit()
    con.close()
    return path


def _std_text_reader(buffered, sc):
    """sys.stdin as CPython builds it: a TextIOWrapper over the byte stream, strict under an ordinary locale, with the
    surrogateescape error handler under the C / POSIX locale (the scenario's knob)."""
    return io.TextIOWrapper(buffered, encoding='utf-8', errors=sc.get('stdin_errors', 'strict'))


def _run_process(t, sc, fault, obs):
    """query_csv / query_sqlite_to_csv called directly ('file', 'sqlite') or through rbql_main.main() ('cli', 'sqlite_cli')."""
    front = sc['front']
    w = fsseam.reset_work_dir()
    tracker = fsseam.OpenTracker()
    enc = sc['enc']
    bad = sc.get('bad') if (fault and fault['kind'] in ('bad_byte', 'clean_schedule')) else None
    raws = {}
    in_path = os.path.join(w, 'input.csv')
    out_path = os.path.join(w, 'nodir', 'out.csv') if sc.get('missing_outdir') else os.path.join(w, 'out.csv')
    join_path = os.path.join(w, sc.get('join_name') or JOIN_FILE)
    in_data = _input_bytes(sc, fault, 'input') if 'in_text' in sc else b''
    if sc.get('input_bad_pos') is not None:
        in_data = in_data[:sc['input_bad_pos']] + b'\xff' + in_data[sc['input_bad_pos']:]
    if not sc.get('missing_input'):
        with open(in_path, 'wb') as f:
            f.write(in_data)
    if sc.get('join_text') is not None:
        jdata = _input_bytes(sc, fault, 'join')
        if sc.get('join_bad_pos') is not None:
            jdata = jdata[:sc['join_bad_pos']] + b'\xff' + jdata[sc['join_bad_pos']:]
        with open(join_path, 'wb') as f:
            f.write(jdata)
        if bad is not None and bad['where'] == 'join' and bad.get('pieces') is not None:
            def sub_join(mode, jdata=jdata):
                raw = SimRawSource(jdata, bad['pieces'], log=Sim.log)
                raws['join'] = raw
                return io.BufferedReader(raw, buffer_size=max(1, bad['bufsize']))
            tracker.substitutes[join_path] = sub_join
    home = os.path.join(fsseam.scratch_dir(), 'home')
    index_path = os.path.join(home, '.rbql_table_names')
    if sc.get('table_alias'):
        with open(index_path, 'w') as f:
            f.write('other\t/nonexistent\n%s\t%s\n' % (sc['table_alias'], join_path))
    elif os.path.exists(index_path):
        os.unlink(index_path)
    init_path = None
    if sc.get('init_code') is not None:
        init_path = os.path.join(w, 'init_source.py')
        with open(init_path, 'w') as f:
            f.write(sc['init_code'])
    stdin = None
    use_stdin = sc.get('in_from') == 'stdin' and not sc.get('missing_input')
    if bad is not None and bad['where'] == 'input' and bad.get('pieces') is not None:
        if use_stdin:
            raw = SimRawSource(in_data, bad['pieces'], log=Sim.log)
            raws['input'] = raw
            stdin = _std_text_reader(io.BufferedReader(raw, buffer_size=max(1, bad['bufsize'])), sc)
        else:
            def sub_in(mode):
                raw = SimRawSource(in_data, bad['pieces'], log=Sim.log)
                raws['input'] = raw
                return io.BufferedReader(raw, buffer_size=max(1, bad['bufsize']))
            tracker.substitutes[in_path] = sub_in
    elif use_stdin:
        stdin = _std_text_reader(io.BufferedReader(io.BytesIO(in_data)), sc)
    # output
    budget = fault['budget'] if fault and fault['kind'] == 'sink_break_bytes' else None
    if sc.get('file_budget') is not None:
        budget = sc['file_budget']
    out_raw = SimRawSink(budget, log=Sim.log, atomic=bool(sc.get('sink', {}).get('atomic')), errno_code=sc.get('device_errno'), flavor=sc.get('sink', {}).get('flavor'))
    stdout = None
    to_file = sc.get('out_to') == 'file'
    if to_file:
        if not sc.get('missing_outdir'):
            def sub_out(mode):
                return io.BufferedWriter(out_raw, buffer_size=max(1, sc['sink'].get('bufsize', 8192)))
            if budget is not None or sc.get('family') == 'pipe':
                tracker.substitutes[out_path] = sub_out
    else:
        stdout = StdShape(io.BufferedWriter(out_raw, buffer_size=max(1, sc['sink'].get('bufsize', 8192))))
    real_pipe_w = None
    if fault and fault['kind'] == 'real_pipe_reader_gone' and not to_file:
        # `rbql ... | true`: a real OS pipe whose reader has already gone, opened the way CPython opens
        # sys.stdout (io.open on the descriptor: TextIOWrapper over BufferedWriter over FileIO, buffer size from fstat). Deterministic: every raw write fails with EPIPE.
        pr, real_pipe_w = os.pipe()
        os.close(pr)
        stdout = open(real_pipe_w, 'w', encoding='utf-8', closefd=True)   # as create_stdio() does: buffer size taken from fstat (4096 for a pipe)
    argv = None
    db_path = None
    if front in ('sqlite', 'sqlite_cli'):
        db_path = _build_sqlite(w, sc)
    table = sc.get('sqlite_table', 'ta')
    query = sc['query'].replace(sc.get('join_name') or JOIN_FILE, 'tb') if db_path else sc['query']
    if front == 'cli':
        argv = ['rbql', '--query', query, '--delim', sc['delim'], '--policy', sc['policy'], '--encoding', enc]
        if not use_stdin:
            argv += ['--input', in_path]
        if to_file:
            argv += ['--output', out_path]
        if sc['with_headers']:
            argv += ['--with-headers']
        if init_path:
            argv += ['--init-source-file', init_path]
        if sc.get('color') and not to_file:
            argv += ['--color']
        if sc.get('out_format', 'input') != 'input':
            argv += ['--out-format', sc['out_format']]
    elif front == 'sqlite_cli':
        argv = ['rbql', 'sqlite', db_path, '--input', table, '--query', query]
        if to_file:
            argv += ['--output', out_path]
    warnings = []
    con = None
    with fsseam.ProcessSeam(t, tracker=tracker, stdin=stdin, stdout=stdout, argv=argv) as seam:
        try:
            if front in ('cli', 'sqlite_cli'):
                try:
                    t.main.main()
                    obs['outcome'] = ['exit', 0]
                except SystemExit as e:
                    obs['outcome'] = ['exit', e.code if isinstance(e.code, int) else (0 if e.code is None else 1)]
            elif front == 'file':
                _invoke(sc, lambda: t.csv.query_csv(query, None if use_stdin else in_path, sc['delim'], sc['policy'], out_path if to_file else None,
                                                    sc.get('out_delim', sc['delim'] if sc.get('out_policy') != 'monocolumn' else ''), sc.get('out_policy', sc['policy']), enc, warnings,
                                                    sc['with_headers'], None, '', bool(sc.get('color')) and not to_file))
                obs['outcome'] = ['ok']
            else:
                import sqlite3
                con = sqlite3.connect(db_path, check_same_thread=False)
                _invoke(sc, lambda: t.sqlite.query_sqlite_to_csv(query, con, table, out_path if to_file else None, ',', 'quoted_rfc', 'utf-8', warnings))
                obs['outcome'] = ['ok']
        except Exception as e:
            _capture_exc(t, obs, e, e.__traceback__)
        finally:
            if con is not None:
                con.close()
        _sigpipe_guard(obs)
        obs['leaked'] = tracker.leaked()
        obs['stdout_closed_by_writer'] = bool(seam.stdout.closed)
        if real_pipe_w is not None:
            # What Py_FinalizeEx does first, before any garbage collection: flush_std_files(). If sys.stdout is still open and
            # flushing it hits the broken pipe, the interpreter prints "Exception ignored ... BrokenPipeError" and exits with 120.
            try:
                if not seam.stdout.closed:
                    seam.stdout.flush()
            except BrokenPipeError:
                obs['exit_flush_fails'] = True
            except ValueError:
                pass
        obs['stderr'] = seam.stderr.getvalue()
        obs['opened'] = [[os.path.basename(str(p)), m] for p, m, _h in tracker.handles]
        if stdout is None and seam.default_out_raw is not None and not to_file:
            out_raw = seam.default_out_raw
    tracker.close_all()
    if os.path.exists(index_path):
        os.unlink(index_path)
    if real_pipe_w is not None:
        try:
            stdout.close()
        except (BrokenPipeError, ValueError, OSError):
            pass
        try:
            os.close(real_pipe_w)
        except OSError:
            pass
    seam.restore_hook()
    obs['unraisable'] = len(seam.unraisable)
    obs['warnings'] = warnings
    if real_pipe_w is not None:
        obs['real_pipe'] = True
    if to_file and out_path not in tracker.substitutes:
        try:
            with open(out_path, 'rb') as f:
                obs['out'] = f.read().hex()
        except OSError:
            obs['out'] = None
    else:
        obs['out'] = bytes(out_raw.accepted).hex()
    obs['fired'] = out_raw.raised > 0 or real_pipe_w is not None
    obs['sink_raises'] = out_raw.raised
    if fault and fault['kind'] == 'bad_byte':
        raw = raws.get(fault['where'])
        if raw is not None:
            obs['consumed_bad'] = raw.pos > fault['pos']
        else:
            obs['consumed_bad'] = None     # real file: no visibility, whole file is read by the OS layer
        obs['fired'] = obs['consumed_bad'] is not False
    elif fault and fault['kind'] == 'clean_schedule':
        raw = raws.get(fault['where'])
        obs['consumed'] = raw.pos if raw is not None else None


# ----------------------------------------------------------------------------- oracles

def is_success(obs):
    return obs['outcome'] in (['ok'], ['exit', 0])


def stderr_only_warnings(obs):
    for line in obs.get('stderr', '').splitlines():
        if line.strip() and not line.startswith('Warning: '):
            return False
    return True


def check_pipe(sc, fault, obs, full):
    if not obs['fired']:
        return None
    if not is_success(obs) or not stderr_only_warnings(obs):
        return ('pipe_escape', {'outcome': obs['outcome'], 'where': obs.get('where'), 'line': obs.get('where_line'), 'stderr': obs.get('stderr', '')[-300:]})
    if not str(full['out']).startswith(str(obs['out'])):
        return ('pipe_prefix', {'emitted': obs['out'], 'full': full['out']})
    if obs.get('sigpipe_disposition'):
        return ('pipe_signal_disposition', {'sigpipe': obs['sigpipe_disposition'],
                                            'note': 'after this query the process no longer ignores SIGPIPE: the next write to a dead pipe kills it instead of raising BrokenPipeError'})
    if obs.get('exit_flush_fails'):
        return ('pipe_exit_status', {'note': 'sys.stdout left open with unflushable data: the interpreter would report BrokenPipeError at exit (status 120)'})
    if obs['first_fail'] and (obs['pulls_after_fail'] > 1 or obs['writes_after_fail'] > 1):
        return ('pipe_not_prompt', {'pulls_after_fail': obs['pulls_after_fail'], 'writes_after_fail': obs['writes_after_fail']})
    return None


def check_protocol(sc, fault, obs):
    trace = obs['writer_trace']
    names = [x[0] for x in trace]
    if names.count('set_header') > 1:
        return ('protocol_header_twice', {'trace': trace})
    if 'set_header' in names and 'write' in names and names.index('set_header') > names.index('write'):
        return ('protocol_header_after_write', {'trace': trace})
    refused = False
    for name, arg in trace:
        if name == 'write':
            if refused:
                return ('protocol_write_after_false', {'trace': trace})
            if arg is False:
                refused = True
    if obs['outcome'] == ['ok']:
        if names.count('finish') != 1 or names[-1] != 'finish':
            return ('protocol_finish', {'trace': trace})
    if obs['first_fail'] and obs['pulls_after_fail'] > 1:
        return ('refuse_not_prompt', {'pulls_after_fail': obs['pulls_after_fail']})
    return None


def has_garbage(obs):
    out = obs.get('out')
    if not isinstance(out, str):
        return False
    if obs.get('out_kind') == 'text':
        text = out
    else:
        try:
            text = bytes.fromhex(out).decode('utf-8')
        except UnicodeDecodeError:
            return True
    return '\ufffd' in text or any(0xDC80 <= ord(c) <= 0xDCFF for c in text)


def check_badbyte(sc, fault, obs, clean):
    oc = obs['outcome']
    # an IO-handling error, whatever its wording (the class name is the API; the CLI renders it as "Error [IO handling]")
    if oc[0] == 'err' and oc[1] == 'RbqlIOHandlingError':
        return None
    if oc[0] == 'exit' and oc[1] != 0 and 'Error [IO handling]' in obs.get('stderr', ''):
        return None
    if is_success(obs):
        if has_garbage(obs):
            return ('badbyte_garbage', {'out': obs['out']})
        same = clean is not None and obs['out'] == clean['out'] and obs['outcome'] == clean['outcome'] and obs.get('warnings') == clean.get('warnings')
        if obs.get('consumed_bad') is False and same:
            return None            # the reader never consumed the damaged byte
        if sc.get('bounded') and not sc.get('buffered') and same and fault['where'] == 'input':
            return None            # bounded query done before the decoder had to deliver the damaged part
        return ('badbyte_accepted', {'outcome': oc, 'consumed_bad': obs.get('consumed_bad'), 'out': obs['out'], 'clean_out': None if clean is None else clean['out']})
    if oc[0] == 'err' and oc[1] in ('UnicodeDecodeError', 'UnicodeError'):
        return ('badbyte_raw_exception', {'outcome': oc, 'where': obs.get('where')})
    # other error outcomes (e.g. a parse error raised before the byte was read) must also occur on clean data
    if clean is not None and clean['outcome'] == oc:
        return None
    return ('badbyte_other', {'outcome': oc, 'clean': None if clean is None else clean['outcome'], 'stderr': obs.get('stderr', '')[-300:]})


def check_handles(obs):
    if obs.get('leaked'):
        return ('handle_leak', {'leaked': obs['leaked'], 'outcome': obs['outcome'], 'opened': obs.get('opened')})
    if obs.get('fd_leak'):
        wdir = fsseam.scratch_dir()
        return ('fd_leak', {'descriptors_left_open': [p.replace(wdir, '<W>') for p in obs['fd_leak']], 'outcome': obs['outcome']})
    return None


# ----------------------------------------------------------------------------- fault enumeration

def fault_points(sc, full):
    fam = sc['family']
    if fam == 'refuse':
        n = len(full['out'])
        return [{'kind': 'refuse', 'at': k} for k in range(0, n + 1)]
    if fam == 'pipe':
        if sc['front'] == 'stream' and sc['sink']['type'] == 'text':
            ncalls = full.get('sink_calls', 0)
            return [{'kind': 'sink_break_call', 'at': k} for k in range(0, ncalls + 1)]
        nbytes = len(full['out']) // 2
        stride = 1 if nbytes <= 80 else max(1, nbytes // 60)
        pts = list(range(0, nbytes, stride)) + [max(0, nbytes - 1)]
        out = [{'kind': 'sink_break_bytes', 'budget': b} for b in sorted(set(pts))]
        if sc['front'] != 'stream' and sc.get('out_to') == 'stdout':
            out.append({'kind': 'real_pipe_reader_gone'})
        return out
    if fam == 'badbyte':
        bad = sc['bad']
        text = sc['join_text'] if bad['where'] == 'join' else sc['in_text']
        n = len(text.encode('utf-8'))
        stride = 1 if n <= 60 else max(1, n // 40)
        pts = list(range(0, n, stride))
        if n > 8192:
            pts = sorted(set(pts[:6] + [8190, 8191, 8192, 8193, n - 2, n - 1] + pts[-6:]))
        return [{'kind': 'bad_byte', 'where': bad['where'], 'pos': p, 'byte': bad['byte']} for p in pts]
    return [None]


def scenario_key(sc):
    return core.key64({k: v for k, v in sc.items() if k not in ('kind', 'fault')})


def execute(sc):
    ensure_init()
    counters = {}
    res = {'verdict': 'ok', 'oracle': None, 'counters': counters, 'evals': 0, 'nontrivial': 0, 'steps': 0, 'key': scenario_key(sc)}
    fam = sc['family']
    digest_parts = []

    def violation(oracle, detail, fault):
        case = dict(sc)
        case['kind'] = 'single'
        case['fault'] = fault
        res.update(verdict='violation', oracle=oracle, detail=detail, case=case)

    # fault-free reference
    full = run_once(sc, None)
    res['evals'] += 1
    res['steps'] += full['steps']
    bump(counters, 'front.' + sc['front'])
    bump(counters, 'family.' + fam)
    bump(counters, 'shape.' + str(sc.get('shape')))
    digest_parts.append([full['outcome'], full['out'], full.get('warnings'), full.get('stderr')])
    v = check_handles(full)
    if v:
        violation(v[0], v[1], None)
    if not v and sc['front'] in ('userwriter',):
        v = check_protocol(sc, None, full)
        if v:
            violation(v[0], v[1], None)
    if fam == 'errors':
        bump(counters, 'error.' + sc['error'] + '.' + str(full['outcome'][0]) + ('' if full['outcome'][0] != 'exit' else str(full['outcome'][1])))
        if full['outcome'][0] == 'err':
            bump(counters, 'fault.error_raised.' + full['outcome'][1])
            res['nontrivial'] += 1
        elif full['outcome'] == ['exit', 1]:
            bump(counters, 'fault.error_raised.cli_exit_1')
            res['nontrivial'] += 1
        if full['fired'] and sc.get('device_errno'):
            bump(counters, 'fault.device_error_fired')       # an error outcome is expected here; only the handle clause applies
        elif full['fired']:
            bump(counters, 'fault.sink_break_fired')
            pv = check_pipe(sc, {'kind': 'file_budget'}, full, {'out': full['out']})
            if pv and pv[0] == 'pipe_escape' and not v:
                violation(pv[0], pv[1], None)
        if full.get('stdout_closed_by_writer'):
            bump(counters, 'probe.stdout_closed_by_writer')
        res['digest'] = core.digest(digest_parts)
        return res
    if res['verdict'] == 'violation':
        res['digest'] = core.digest(digest_parts)
        return res
    if not is_success(full):
        # the scenario itself fails without any fault (e.g. ragged header): nothing to enumerate, but handles were checked
        res['verdict'] = 'discard' if fam != 'refuse' else 'ok'
        bump(counters, 'discard.faultfree_run_fails')
        res['digest'] = core.digest(digest_parts)
        if fam != 'refuse':
            return res
    faults = [sc['fault']] if sc['kind'] == 'single' else fault_points(sc, full)
    clean_cache = {}
    for fault in faults:
        if fault is None:
            continue
        if fault['kind'] == 'bad_byte':
            text = sc['join_text'] if fault['where'] == 'join' else sc['in_text']
            if apply_bad_byte(text.encode('utf-8'), fault['pos'], fault['byte']) is None:
                bump(counters, 'discard.byte_still_valid_utf8')
                continue
        obs = run_once(sc, fault)
        res['evals'] += 1
        res['steps'] += obs['steps']
        if obs['fired']:
            res['nontrivial'] += 1
            bump(counters, 'fault.%s_fired' % fault['kind'])
        else:
            bump(counters, 'fault.%s_not_reached' % fault['kind'])
        if obs.get('stdout_closed_by_writer'):
            bump(counters, 'probe.stdout_closed_by_writer')
        if obs.get('unraisable'):
            bump(counters, 'probe.unraisable_at_dealloc')
        digest_parts.append([fault, obs['outcome'], obs['out']])
        v = check_handles(obs)
        if not v:
            if fault['kind'] in ('sink_break_call', 'sink_break_bytes', 'real_pipe_reader_gone'):
                v = check_pipe(sc, fault, obs, full)
                if obs['fired'] and obs['first_fail']:
                    bump(counters, 'probe.break_inside_write')
                elif obs['fired']:
                    bump(counters, 'probe.break_at_flush_or_close')
            elif fault['kind'] == 'refuse':
                v = check_protocol(sc, fault, obs)
                if not v and obs['fired'] and obs['outcome'] == ['ok'] and obs['out'] != full['out'][:fault['at']]:
                    v = ('refuse_prefix', {'accepted': obs['out'], 'full': full['out'], 'at': fault['at']})
            elif fault['kind'] == 'bad_byte':
                ck = 'c'
                if ck not in clean_cache:
                    clean_cache[ck] = run_once(sc, {'kind': 'clean_schedule', 'where': fault['where']})
                    res['evals'] += 1
                v = check_badbyte(sc, fault, obs, clean_cache[ck])
                if obs.get('consumed_bad') is False:
                    bump(counters, 'probe.bounded_query_done_before_bad_byte')
        if v:
            violation(v[0], v[1], fault)
            break
    res['digest'] = core.digest(digest_parts)
    return res


def signature(sc, result):
    d = result.get('detail') or {}
    extra = ''
    if result['oracle'] == 'pipe_escape':
        oc = d.get('outcome') or ['?']
        extra = ':%s@%s' % (oc[1] if len(oc) > 1 else oc[0], d.get('where'))
    return 'C15/%s/%s%s/%s' % (sc['family'], result['oracle'], extra, sc['front'])


def sample_view(sc):
    return sc


def shrinks(sc):
    if sc['kind'] != 'single':
        return
    # fewer input rows
    for key in ('in_text', 'join_text'):
        text = sc.get(key)
        if text:
            lines = text.split('\n')
            for i in range(len(lines)):
                c = dict(sc)
                c[key] = '\n'.join(lines[:i] + lines[i + 1:])
                yield c
    if sc.get('rows'):
        for i in range(len(sc['rows'])):
            c = dict(sc)
            c['rows'] = sc['rows'][:i] + sc['rows'][i + 1:]
            if c.get('poison') is not None:
                c['poison'] = None if not c['rows'] else min(c['poison'], len(c['rows']) - 1)
            yield c
    f = sc.get('fault')
    if f:
        for fk in ('at', 'budget', 'pos'):
            if fk in f and f[fk] > 0:
                for nv in (0, f[fk] // 2, f[fk] - 1):
                    if nv != f[fk]:
                        c = dict(sc)
                        c['fault'] = dict(f)
                        c['fault'][fk] = nv
                        yield c
    sink = sc.get('sink')
    if sink:
        for k, v in (('tw_chunk', None), ('bufsize', 8192), ('shape', 'plain'), ('close_on_finish', False), ('flavor', None)):
            if k in sink and sink[k] != v:
                c = dict(sc)
                c['sink'] = dict(sink)
                c['sink'][k] = v
                yield c
    if sc.get('bad') and sc['bad'].get('pieces') and len(sc['bad']['pieces']) > 1:
        p = sc['bad']['pieces']
        for i in range(len(p) - 1):
            c = dict(sc)
            c['bad'] = dict(sc['bad'])
            c['bad']['pieces'] = p[:i] + [p[i] + p[i + 1]] + p[i + 2:]
            yield c
    for k, v in (('with_headers', False), ('policy', 'quoted')):
        if k in sc and sc[k] != v and sc.get('family') != 'errors':
            c = dict(sc)
            c[k] = v
            yield c
    if sc.get('in_thread'):
        c = dict(sc)
        c.pop('in_thread')
        yield c
