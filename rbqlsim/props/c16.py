# C16 - queries are isolated: consecutive and thread-interleaved runs do not interfere.
#
# Oracle: the same operation run alone in a pristine interpreter. The harness process never runs a
# query itself; every reference and every history / interleaving runs in a forked copy of it.
# Part A: histories of 1-6 operations (successes of every kind and failures) in one interpreter.
# Part B: 2-3 queries of different kinds, each in its own thread, interleaved by the baton
#         scheduler at every iterator / writer / registry call (optionally at source lines).

import re
import io
import os
import sys

from .. import bareref, core, fsseam, workload
from ..core import bump, EventLog
from ..forkrun import fork_call
from ..threads import Baton, Stalled
from ..streams import StdShape, SimRawSink

ID = 'C16'
LEVEL = 'exploration'
TIERS = {
    'quick': {'runs': 10000, 'deadline_s': 100, 'chunk': 50},
    'thorough': {'runs': 300000, 'deadline_s': 1200, 'chunk': 100},
}
RULE = ('one run = either (A) a seeded history of 1-6 operations (query_table / engine.query / query_csv / query_dataframe / in-process CLI; successes of every '
        'kind, parse, syntax, runtime and IO failures) executed in one forked interpreter, or (B) 2-3 queries of different kinds over tables of <= 4 records, each '
        'in its own thread, interleaved by the baton scheduler according to the seeded `picks` list at every get_record / write / set_header / finish / registry call '
        '(plus every N-th source line of rbql_engine in a fraction of runs). Every outcome is compared with the same operation alone in a pristine forked interpreter. '
        'Non-trivial: (A) >= 2 operations; (B) >= 1 context switch while both queries were mid-run. Distinct = distinct (kinds, projected schedule) resp. distinct history.')
COMPONENTS = {
    'real': ['rbql_engine.query / query_table (parse, code generation, exec, writer chain, aggregators, UNNEST, LIKE cache)', 'rbql_csv.query_csv, rbql_pandas.query_dataframe, rbql_main.main() in part A',
             'CPython threads (one runnable at a time under the baton)'],
    'stub': ['input iterators, output writers and join registries (subclasses of the tree\'s TableIterator / TableWriter that yield to the scheduler)',
             'thread scheduling decisions (explicit picks)', 'sys.std*, HOME, private directory'],
}
ASSUMPTIONS = [
    'pre-emption granularity is seam calls, optionally source lines of rbql_engine (not bytecodes); C extension internals are atomic',
    'the reference is the tree itself run alone: in a fork of a separately started bare interpreter that imported rbql and nothing else (pandas operations: in a fork of the harness process, which never runs a query); a bug that is identical alone and in company is invisible here', 'a schedule is reported as stalled when no scheduling point is reached and no thread finishes for 10 s of wall time and all unfinished threads sit at the same instruction over four samples (the only use of a real clock)',
    'the JS engine keeps its context in a module global (documented limitation); only the Python engine is claimed',
]

JOIN_ID = 'B'

# kind -> (query, options)
KINDS = {
    'simple': ('select a1, a2', {}),
    'star': ('select *', {}),
    'where': ("select a1, NR where a2 == 'v1'", {}),
    'order': ('select a1, a2 order by a2 desc', {}),
    'order2': ('select a2 order by a1, a2', {}),
    'distinct': ('select distinct a2', {}),
    'distinct_count': ('select distinct count a2', {}),
    'agg_group': ('select a2, count(*), max(a1) group by a2', {}),
    'agg_plain': ('select SUM(a1), MIN(a1), ARRAY_AGG(a2)', {}),
    'agg_median': ('select a2, median(a1), variance(a1), avg(a1) group by a2', {}),
    'agg_any': ('select ANY_VALUE(a1), count(1)', {}),
    'unnest': ("select a1, unnest(a3.split(';'))", {}),
    'unnest2': ("select unnest(a2), NR", {}),
    'like': ("select a2 where like(a2, 'v%')", {}),
    'like2': ("select a1 where like(a2, '_1') or like(a2, 'v_')", {}),
    'join': ('select a1, b2 join B on a2 == b1', {'join': True}),
    'left_join': ('select a1, b2, b3 left join B on a2 == b1', {'join': True}),
    'join_agg': ('select b2, count(*) join B on a2 == b1 group by b2', {'join': True}),
    'update': ("update set a2 = 'Z' + a2 where a1 == '1'", {}),
    'update_nu': ("update set a1 = NU where a2 == 'v1'", {}),
    'except': ('select * except a2', {}),
    'top': ('select top 2 a1', {}),
    'limit_distinct': ('select distinct a1 limit 2', {}),
    'header_attr': ('select a.name, a.id', {'header': True}),
    'init_code': ('select foo(a1)', {'init': 'def foo(x):\n    return x + "!"'}),
    'uses_foo': ('select foo(a1)', {}),
    'init_code_raises': ('select a2, ratio(a1)', {'init': 'def ratio(x):\n    y = int(x)\n    return 10.0 / y', 'poison': True}),
    'init_import': ('select math.floor(float(a1))', {'init': 'import math'}),
    'uses_math': ('select math.floor(float(a1))', {}),
    'err_parse': ('select a1 limit x', {}),
    'err_parse2': ('select a2, count(*) group by a2 order by a2', {}),
    'err_syntax': ('select a1 +', {}),
    'err_runtime': ('select int(a1), a2', {'poison': True}),
    'err_runtime_sorted': ('select a2 order by int(a1)', {'poison': True}),
    'err_agg_misuse': ('select int(max(a1)) + 1', {}),
    'err_two_unnest': ("select unnest(a3.split(';')), unnest(a3.split(';'))", {}),
    'err_unknown_join': ('select a1 join C on a1 == c1', {'join': True}),
    'err_strict': ('select a1 strict left join B on a2 == b1', {'join': True}),
    'err_nonconst_group': ('select a1, count(*) group by a2', {}),
    'ragged': ('select a1, a3', {'ragged': True}),
    'agg_float': ('select MIN(a1), MAX(a1), SUM(a1)', {'floats': True}),
    'agg_float_group': ('select a2, AVG(a1), MEDIAN(a1) group by a2', {'floats': True}),
    'err_agg_nonnumeric': ('select MAX(a1), SUM(a1)', {'poison': True}),
    'order_nr': ('select NR, a1 order by a1', {}),
    'update_multi': ('update set a1 = a2, a2 = a1', {}),
    'like_many': ("select a1 where like(a2, 'v_') and like(a1, '1%')", {}),
    'except_header': ('select * except a.name', {'header': True}),
    'join_header': ('select a.id, b.jval join B on a.name == b.key', {'join': True, 'header': True}),
    'header_dict': ('select a["name"], a["id"]', {'header': True}),
    'header_dict_update': ('update set a["name"] = "N"', {'header': True}),
    'header_dict_except': ('select * except a["name"]', {'header': True}),
    'direct_vars': ('select key, sort_key where out_fields != key', {'header_names': ['key', 'sort_key', 'out_fields'], 'normalize': False}),
    'direct_vars_nr': ('select NR, name where stop_flag == name or True', {'header_names': ['stop_flag', 'name', 'record_a'], 'normalize': False}),
    'with_noheader': ('select NR, a1, a2 with (noheader)', {'header': True, 'csv_only': True}),
    'with_noheaders': ('select NR, a1 with (noheaders)', {'header': True, 'csv_only': True}),
    'with_header': ('select a.name, NR with (header)', {'force_header_row': True, 'csv_only': True}),
    'with_headers': ('select a.name, a.id with (headers)', {'force_header_row': True, 'csv_only': True}),
    'with_header_table': ('select a1, NR with (header)', {}),
    'join_two_keys': ('select a1, b2 left join B on a2 == b1 and a1 == b3', {'join': True, 'join_b3_from_a1': True}),
    'err_join_table_missing': ('select a1, b2 join B on a2 == b1', {'join_missing': True}),
    # values around the interpreter's int <-> str digit limit (4300 by default): a process-wide setting
    'big_agg': ('select MAX(a1), MIN(a1), SUM(a1)', {'bigdigits': True}),
    'big_median_group': ('select a2, MEDIAN(a1) group by a2', {'bigdigits': True}),
    'big_int_expr': ('select NR, int(a1) % 97', {'bigdigits': True}),
    'big_pow_out': ('select a1, 2 ** (int(a1) * 5000)', {}),
    'big_str_expr': ('select NR, len(str(3 ** (int(a1) * 3000)))', {}),
    # Python syntax errors that only compile() of the generated loop reports (outside the select list)
    'err_syntax_where': ('select a1 where a2 ==', {}),
    'err_syntax_order': ('select a1, a2 order by a2 +', {}),
    'err_syntax_update': ('update set a2 = a1 +', {}),
    # missing-looking values in aggregates: None from short records, NaN from the text 'nan'
    'agg_ragged_none': ('select MIN(a3), MAX(a3), COUNT(a3)', {'ragged': True}),
    'agg_avg_ints': ('select a2, AVG(a1), VARIANCE(a1) group by a2', {'int_cells': True}),
    'agg_sum_ints': ('select SUM(a1), MIN(a1), MAX(a1), MEDIAN(a1)', {'int_cells': True}),
    'agg_nan': ('select MIN(a1), MAX(a1)', {'nan_values': True}),
    'agg_nan_group': ('select a2, MAX(a1), MIN(a1) group by a2', {'nan_values': True}),
    # LEFT JOIN over join tables of different widths, with the width visible in the output (*, b.*, bNF): the padding of
    # unmatched keys is per query
    'left_join_star': ('select * left join B on a2 == b1', {'join': True, 'join_width': True}),
    'left_join_bstar': ('select a1, b.* left join B on a2 == b1', {'join': True, 'join_width': True}),
    'left_join_bnf': ('select a1, bNF, b2 left join B on a2 == b1', {'join': True, 'join_width': True}),
    'update_left_join_bnf': ('update set a3 = bNF left join B on a2 == b1', {'join': True, 'join_width': True}),
}
LEFT_JOIN_WIDTH_KINDS = ['left_join_star', 'left_join_bstar', 'left_join_bnf', 'update_left_join_bnf']
KIND_NAMES = sorted(KINDS)
THREAD_KINDS = [k for k in KIND_NAMES]


def gen_op(rng, kind=None, api=None, max_rows=6, pool=40):
    # Tables come from a bounded pool per kind so that the pristine-interpreter references (one fork
    # each) are shared between runs; schedules and histories are what vary freely.
    import random
    kind = kind or rng.choice(KIND_NAMES)
    api = api or rng.choices(['table', 'iter', 'csv', 'df', 'cli', 'csviter', 'sqlite'], [36, 20, 12, 8, 11, 7, 6])[0]
    rng = random.Random('c16tbl:%s:%d:%d' % (kind, rng.randrange(pool), max_rows))
    query, opt = KINDS[kind]
    nrows = rng.choice([0, 1, 2, 3, 4, 4, max_rows]) if max_rows > 4 else rng.choice([1, 2, 3, 4, 4])
    rows = workload.gen_table(rng, nrows, 3, ragged=bool(opt.get('ragged')))
    op = {'kind': kind, 'query': query, 'rows': rows, 'api': api}
    if opt.get('floats'):
        for r in rows:
            r[0] = rng.choice(['1', '2.5', '3', '0.5', '10', '2'])
    if opt.get('int_cells'):
        # cells that are numbers already (a list table built by a program), not numeric strings
        for r in rows:
            r[0] = rng.choice([1, 2, 3, 10, 2.5, 7])
    if opt.get('nan_values'):
        for r in rows:
            r[0] = rng.choice(['nan', '3', '1', 'nan', '2.5', 'inf'])
    if opt.get('bigdigits'):
        for r in rows:
            r[0] = rng.choice(['7' * 4400, '12' * 2300, '5', '44', '9' * 4300, '1' + '0' * 4300])
    if opt.get('poison') and rows:
        rows[rng.randrange(len(rows))][0] = 'bad'
    if opt.get('join'):
        op['join_rows'] = workload.gen_join_table(rng, rng.choice([0, 1, 2, 3, 4]))
        if opt.get('join_b3_from_a1'):
            for jr in op['join_rows']:
                jr[2] = rng.choice(['1', '2', '3', '10'])
    if opt.get('join_width'):
        width = rng.choice([1, 2, 2, 3, 4, 5])
        op['join_rows'] = [(list(jr) + ['w4', 'w5'])[:width] for jr in op['join_rows']]
    if opt.get('join_missing'):
        op['join_missing'] = True
    if opt.get('header') or (rng.random() < 0.15 and not opt.get('ragged')):
        op['header'] = ['id', 'name', 'tag']
        if 'join_rows' in op:
            op['join_header'] = ['key', 'jval', 'jtag']
        if rng.random() < 0.5:
            # same column names in another order: the same query text then binds other indices
            perm = rng.choice([[1, 0, 2], [2, 1, 0], [0, 2, 1], [1, 2, 0]])
            op['header'] = [op['header'][i] for i in perm]
            if 'join_header' in op and rng.random() < 0.5:
                op['join_header'] = [op['join_header'][i] for i in perm]
        if rng.random() < 0.25:
            # a table that lacks one of the names the query text may use: alone the query fails, which state left by an earlier
            # run of the same text over a complete header could hide
            op['header'] = [{'name': 'title', 'id': 'ident'}.get(h, h) if rng.random() < 0.6 else h for h in op['header']]
    if opt.get('join_width'):
        if 'join_header' in op:
            op['join_header'] = ['key', 'jval', 'jtag', 'j4', 'j5'][:width]
        if api in ('df', 'sqlite', 'csviter'):
            op['api'] = rng.choice(['table', 'iter', 'csv'])
    if opt.get('init'):
        op['init'] = opt['init']
    if opt.get('csv_only'):
        op['api'] = api if api in ('csv', 'cli', 'csviter') else rng.choice(['csv', 'cli', 'csviter'])
    if opt.get('force_header_row') and rows:
        # the data has a header line but the front-end is told it has none: only the WITH modifier makes it one
        op['rows'] = [['id', 'name', 'tag']] + rows
        op.pop('header', None)
    if opt.get('int_cells') and op['api'] not in ('table', 'iter'):
        op['api'] = 'table'
    if opt.get('header_names'):
        op['header'] = list(opt['header_names'])
        op['normalize'] = False
        op['api'] = 'table'
    if op['api'] == 'csviter' and (opt.get('ragged') or kind in ('star', 'except', 'err_unknown_join') or not rows):
        op['api'] = 'iter'
    if opt.get('join_missing') and op['api'] in ('df', 'sqlite', 'csviter'):
        op['api'] = 'table'
    if op['api'] == 'sqlite' and (opt.get('ragged') or opt.get('header') or not rows):
        op['api'] = 'table'
    if op['api'] == 'sqlite':
        op.pop('header', None)
        op.pop('join_header', None)
    if op['api'] in ('csv', 'cli', 'df') and (opt.get('init') or opt.get('ragged') and op['api'] == 'df'):
        op['api'] = 'table'
    if op['api'] == 'df' and (not rows or opt.get('join') and not op.get('join_rows')):
        op['api'] = 'table'
    return op


# ----------------------------------------------------------------------------- running one operation

def make_sim_classes(t):
    class SimIterator(t.engine.TableIterator):
        def __init__(self, table, header, prefix, baton, tid):
            t.engine.TableIterator.__init__(self, table, header, True, prefix)
            self._b, self._tid = baton, tid

        def get_record(self):
            if self._b is not None:
                self._b.yield_point(self._tid, 'get_record', self.variable_prefix)
            return t.engine.TableIterator.get_record(self)

        def get_variables_map(self, q):
            if self._b is not None:
                self._b.yield_point(self._tid, 'get_variables_map', self.variable_prefix)
            return t.engine.TableIterator.get_variables_map(self, q)

        def get_header(self):
            if self._b is not None:
                self._b.yield_point(self._tid, 'get_header', self.variable_prefix)
            return t.engine.TableIterator.get_header(self)

    class SimWriter(t.engine.TableWriter):
        def __init__(self, out, baton, tid):
            t.engine.TableWriter.__init__(self, out)
            self._b, self._tid = baton, tid

        def write(self, fields):
            if self._b is not None:
                self._b.yield_point(self._tid, 'write')
            return t.engine.TableWriter.write(self, fields)

        def set_header(self, header):
            if self._b is not None:
                self._b.yield_point(self._tid, 'set_header')
            return t.engine.TableWriter.set_header(self, header)

        def finish(self):
            if self._b is not None:
                self._b.yield_point(self._tid, 'finish')

    class SimRegistry(t.engine.RBQLTableRegistry):
        def __init__(self, rows, header, baton, tid):
            self.rows, self.header, self._b, self._tid = rows, header, baton, tid

        def get_iterator_by_table_id(self, table_id, alias):
            if self._b is not None:
                self._b.yield_point(self._tid, 'registry', table_id)
            if table_id.lower() != 'b':
                return None
            return SimIterator(self.rows, self.header, alias, self._b, self._tid)
    return SimIterator, SimWriter, SimRegistry


def make_csv_sim_classes(t):
    import io as _io

    class YCSVIterator(t.csv.CSVRecordIterator):
        def __init__(self, text, has_header, table_name, prefix, baton, tid):
            self._b, self._tid = None, tid       # the constructor pre-reads the first record: not a scheduling point
            t.csv.CSVRecordIterator.__init__(self, _io.StringIO(text), None, ',', 'quoted', has_header=has_header, table_name=table_name, variable_prefix=prefix, chunk_size=5)
            self._b = baton

        def get_record(self):
            if self._b is not None:
                self._b.yield_point(self._tid, 'get_record', self.variable_prefix)
            return t.csv.CSVRecordIterator.get_record(self)

    class YCSVWriter(t.csv.CSVWriter):
        def __init__(self, stream, baton, tid):
            t.csv.CSVWriter.__init__(self, stream, False, None, ',', 'quoted')
            self._b, self._tid = baton, tid

        def write(self, fields):
            if self._b is not None:
                self._b.yield_point(self._tid, 'write')
            return t.csv.CSVWriter.write(self, fields)

        def finish(self):
            if self._b is not None:
                self._b.yield_point(self._tid, 'finish')
            return t.csv.CSVWriter.finish(self)

    class YCSVRegistry(t.engine.RBQLTableRegistry):
        def __init__(self, text, has_header, baton, tid):
            self.text, self.has_header, self._b, self._tid = text, has_header, baton, tid

        def get_iterator_by_table_id(self, table_id, alias):
            if self._b is not None:
                self._b.yield_point(self._tid, 'registry', table_id)
            if table_id.lower() != 'b':
                return None
            return YCSVIterator(self.text, self.has_header, table_id, alias, self._b, self._tid)
    return YCSVIterator, YCSVWriter, YCSVRegistry


_sim_classes = {}
_hist = {'con': None}
_returned = []      # (operation index, output list, its canonical form when the operation returned): nothing may write there later


def note_returned(out):
    _returned.append((_hist.get('op_index', len(_returned)), out, core.canon(_fold_bigints(out))))


def late_writes():
    """Outputs of operations that had already returned and were written to afterwards (a finaliser or a left-over
    callback finishing a writer during a later operation). The collector is run first: it may run at any allocation."""
    import gc
    gc.collect()
    changed = []
    for idx, out, before in _returned:
        now = core.canon(_fold_bigints(out))
        if now != before:
            changed.append({'operation': idx, 'returned_as': before[:300], 'now': now[:300]})
    return changed


def sim_classes(t):
    if 'c' not in _sim_classes:
        _sim_classes['c'] = make_sim_classes(t)
    return _sim_classes['c']


def _fold_bigints(x):
    # an output value may be an int too long for int->str conversion (and so for json); carry its size and a hash of its hex form
    if isinstance(x, bool):
        return x
    if isinstance(x, int) and x.bit_length() > 8000:
        import hashlib
        return '<int bits=%d sha=%s>' % (x.bit_length(), hashlib.sha256(hex(x).encode('ascii')).hexdigest()[:16])
    if isinstance(x, (list, tuple)):
        return [_fold_bigints(v) for v in x]
    if isinstance(x, dict):
        return {k: _fold_bigints(v) for k, v in x.items()}
    return x


def norm(x, w=None):
    s = core.canon(_fold_bigints(x))
    if w:
        s = s.replace(w, '<W>')
    import json
    return json.loads(s)


def run_op(t, op, baton=None, tid=0):
    """Execute one operation; returns a JSON-able outcome."""
    rows = [list(r) for r in op['rows']]
    join_rows = [list(r) for r in op['join_rows']] if op.get('join_rows') is not None else None
    # fresh list objects per operation, freed when it ends (as a caller's temporaries are): a later operation's lists may
    # then live at the same addresses, which is what anything keyed by id() must survive
    header = list(op['header']) if op.get('header') is not None else None
    jheader = list(op['join_header']) if op.get('join_header') is not None else None
    if _hist.get('shared_lists') is not None:
        # a caller that keeps one list object for its column names and refills it for every query
        if header is not None:
            _hist['shared_lists'][0][:] = header
            header = _hist['shared_lists'][0]
        if jheader is not None:
            _hist['shared_lists'][1][:] = jheader
            jheader = _hist['shared_lists'][1]
    warnings = []
    api = op['api']
    try:
        if api == 'iter':
            SimIterator, SimWriter, SimRegistry = sim_classes(t)
            out = []
            it = SimIterator(rows, header, 'a', baton, tid)
            wr = SimWriter(out, baton, tid)
            reg = SimRegistry(join_rows, jheader, baton, tid) if join_rows is not None else None
            if op.get('join_missing'):
                reg = SimRegistry([], None, baton, tid)
                reg.get_iterator_by_table_id = lambda table_id, alias: None
            note_out = out
            try:
                t.engine.query(op['query'], it, wr, warnings, reg, user_init_code=op.get('init', ''))
            finally:
                note_returned(note_out)
            return norm(['ok', out, wr.header, warnings])
        if api == 'csviter':
            import io as _io
            if 'csv' not in _sim_classes:
                _sim_classes['csv'] = make_csv_sim_classes(t)
            YCSVIterator, YCSVWriter, YCSVRegistry = _sim_classes['csv']
            sink = _io.StringIO()
            it = YCSVIterator(workload.to_csv(([header] if header else []) + rows), bool(header), 'input', 'a', baton, tid)
            wr = YCSVWriter(sink, baton, tid)
            reg = YCSVRegistry(workload.to_csv(([jheader] if jheader else []) + join_rows), bool(header), baton, tid) if join_rows is not None else None
            t.engine.query(op['query'], it, wr, warnings, reg, user_init_code=op.get('init', ''))
            return norm(['ok', sink.getvalue(), warnings])
        if api == 'table':
            out = []
            out_header = []
            if op.get('join_missing'):
                t.engine.query(op['query'], t.engine.TableIterator(rows, header), t.engine.TableWriter(out), warnings, t.engine.ListTableRegistry([]))
                return norm(['ok', out, None, warnings])
            if op.get('omit_optional') and op.get('normalize', True) and not op.get('init'):
                # the shortest legal call: every optional argument the operation does not need is left to its default
                args = [op['query'], rows, out, warnings]
                if join_rows is not None or header is not None or jheader is not None:
                    args.append(join_rows)
                if header is not None or jheader is not None:
                    args.append(header)
                if jheader is not None:
                    args.append(jheader)
                t.engine.query_table(*args)
                return norm(['ok', out, None, warnings])
            try:
                t.engine.query_table(op['query'], rows, out, warnings, join_rows, header, jheader, out_header, op.get('normalize', True), op.get('init', ''))
            finally:
                note_returned(out)
            return norm(['ok', out, out_header, warnings])
        if api == 'df':
            import pandas
            df = pandas.DataFrame(rows, columns=header)
            jdf = pandas.DataFrame(join_rows, columns=jheader) if join_rows is not None else None
            res = t.pandas.query_dataframe(op['query'], df, warnings, jdf)
            return norm(['ok', res.values.tolist(), [str(c) for c in res.columns], warnings])
        if api == 'sqlite':
            import sqlite3
            slot = op.get('slot', 0)
            ta, tb = 'ta%d' % slot, 'tb%d' % slot
            shared = _hist.get('con')
            if shared is not None:
                con = shared                      # one caller-owned connection lent to every sqlite query of the history
                out_path = os.path.join(fsseam.scratch_dir(), 'hist_sqlite_out.csv')
            else:
                w = fsseam.reset_work_dir()
                con = sqlite3.connect(os.path.join(w, 'db.sqlite'))
                out_path = os.path.join(w, 'sqlite_out.csv')
            con.execute('create table %s (id text, name text, tag text)' % ta)
            con.executemany('insert into %s values (?,?,?)' % ta, [tuple((list(r) + [None, None, None])[:3]) for r in rows])
            con.execute('create table %s (key text, jval text, jtag text)' % tb)
            con.executemany('insert into %s values (?,?,?)' % tb, [tuple((list(r) + [None, None, None])[:3]) for r in (join_rows or [])])
            con.commit()
            try:
                with fsseam.ProcessSeam(t) as seam:
                    t.sqlite.query_sqlite_to_csv(op['query'].replace(' B on ', ' %s on ' % tb), con, ta, out_path, ',', 'quoted_rfc', op.get('sqlite_enc', 'utf-8'), warnings, op.get('init', ''))
                seam.restore_hook()
            finally:
                if shared is None:
                    con.close()
            with open(out_path, 'rb') as f:
                return norm(['ok', f.read().hex(), warnings], fsseam.scratch_dir())
        # csv / cli
        w = fsseam.reset_work_dir()
        in_rows = ([header] if header else []) + rows
        with open(os.path.join(w, 'input.csv'), 'w', newline='') as f:
            f.write(workload.to_csv(in_rows))
        query = op['query']
        if join_rows is not None:
            jr = ([jheader] if jheader else []) + join_rows
            with open(os.path.join(w, 'jt.csv'), 'w', newline='') as f:
                f.write(workload.to_csv(jr))
            query = query.replace(' B on ', ' jt.csv on ')
        elif op.get('join_missing'):
            query = query.replace(' B on ', ' jt.csv on ')      # the file does not exist (the work directory was just reset)
        raw = SimRawSink(None)
        stdout = StdShape(io.BufferedWriter(raw, buffer_size=8192))
        argv = None
        if api == 'cli':
            argv = ['rbql', '--query', query, '--delim', ',', '--policy', 'quoted', '--input', os.path.join(w, 'input.csv')] + (['--with-headers'] if header else [])
        with fsseam.ProcessSeam(t, stdout=stdout, argv=argv) as seam:
            try:
                if api == 'cli':
                    try:
                        t.main.main()
                        code = 0
                    except SystemExit as e:
                        code = e.code if isinstance(e.code, int) else (0 if e.code is None else 1)
                    try:
                        stdout.buffer.flush()
                    except Exception:
                        pass
                    res = ['exit', code, bytes(raw.accepted).decode('utf-8', 'replace'), seam.stderr.getvalue()]
                else:
                    t.csv.query_csv(query, os.path.join(w, 'input.csv'), ',', 'quoted', None, ',', 'quoted', 'utf-8', warnings, bool(header))
                    try:
                        stdout.buffer.flush()
                    except Exception:
                        pass
                    res = ['ok', bytes(raw.accepted).decode('utf-8', 'replace'), warnings]
            finally:
                pass
        seam.restore_hook()
        return norm(res, w)
    except Exception as e:
        return norm(['err', type(e).__name__, str(e)[:400]])


def child_single(op):
    t = core.load_tree()
    return run_op(t, op)


def module_state(t):
    # (a tree that keeps these flags elsewhere simply has nothing to show here; what it does then shows in the outcomes)
    return [bool(getattr(t.engine, 'debug_mode', False)), bool(getattr(t.csv, 'debug_mode', False))]


_UNKNOWN_COLUMN = re.compile(r'Unable to find column "[^"]*"')


def _hash_neutral(x):
    """View used for the determinism digest only (never by an oracle): the engine picks which of several unknown
    `a.name` columns it reports by iterating over a set of strings, so that one word of the message follows
    PYTHONHASHSEED. Reference and observed runs are forks of one process and agree; the digest must not depend on it."""
    if isinstance(x, str):
        return _UNKNOWN_COLUMN.sub('Unable to find column "?"', x)
    if isinstance(x, (list, tuple)):
        return [_hash_neutral(v) for v in x]
    if isinstance(x, dict):
        return {k: _hash_neutral(v) for k, v in x.items()}
    return x


def process_state():
    """Interpreter-wide settings a library query has no business changing (compared before / after a history)."""
    import csv
    import decimal
    import gc
    import locale
    import signal
    import threading
    import warnings
    extra = {'int_max_str_digits': sys.get_int_max_str_digits() if hasattr(sys, 'get_int_max_str_digits') else None,
             'switch_interval': sys.getswitchinterval(), 'csv_field_size_limit': csv.field_size_limit(),
             'decimal_context': repr(decimal.getcontext()), 'gc_enabled': gc.isenabled(), 'gc_threshold': list(gc.get_threshold()),
             'excepthook_is_original': sys.excepthook is sys.__excepthook__, 'displayhook_is_original': sys.displayhook is sys.__displayhook__,
             'threading_excepthook_is_original': threading.excepthook is threading.__excepthook__,
             'trace': repr(sys.gettrace()), 'profile': repr(sys.getprofile()), 'default_encoding': sys.getdefaultencoding(),
             'fs_encoding': sys.getfilesystemencoding(), 'dont_write_bytecode': sys.dont_write_bytecode}
    extra.update({'sys_path': list(sys.path), 'recursion_limit': sys.getrecursionlimit(), 'cwd': os.getcwd(),
            'sigpipe': repr(signal.getsignal(signal.SIGPIPE)), 'sigint': repr(signal.getsignal(signal.SIGINT)),
            'locale': list(locale.getlocale()), 'warning_filters': [[f[0], str(f[1]), getattr(f[2], '__name__', str(f[2])), str(f[3]), f[4]] for f in warnings.filters],
            'stdout_is_original': sys.stdout is sys.__stdout__ or not getattr(sys.stdout, 'closed', False),
            'environ': core.digest(sorted(os.environ.items()))})
    return extra


def child_history(sc):
    t = core.load_tree()
    outs = []
    states = []
    if any(op['api'] == 'sqlite' for op in sc['ops']):
        import sqlite3
        path = os.path.join(fsseam.scratch_dir(), 'hist.sqlite')
        if os.path.exists(path):
            os.unlink(path)
        _hist['con'] = sqlite3.connect(path)
    before = process_state()
    _hist['shared_lists'] = ([], []) if sc.get('reuse_header_lists') else None
    try:
        for op_index, op in enumerate(sc['ops']):
            _hist['op_index'] = op_index
            if op.get('from_handler'):
                # a caller's fallback query, issued from the except block that caught an earlier failure
                try:
                    raise RuntimeError('an earlier step of the caller failed')
                except RuntimeError:
                    outs.append(run_op(t, op))
            else:
                outs.append(run_op(t, op))
            states.append(module_state(t))
        late = late_writes()
    finally:
        if _hist.get('con') is not None:
            _hist['con'].close()
            _hist['con'] = None
    after = process_state()
    changed = sorted(k for k in before if before[k] != after[k])
    return {'outcomes': outs, 'states': states, 'process_state_changed': changed, 'late_writes': late}


def child_enumerate(sc):
    """Every interleaving of the seam steps of two tiny queries, depth-first over the explicit pick sequences, all inside one
    forked interpreter (so later schedules also run after the earlier ones: both clauses of the property at once)."""
    t = core.load_tree()
    n = len(sc['ops'])
    stack = [[]]
    explored = 0
    ps_before = process_state()
    cap = sc.get('max_schedules', 3000)
    bad = None
    while stack and explored < cap:
        prefix = stack.pop()
        log = EventLog(cap=100000)
        baton = Baton(n, prefix, log, max_yields=5000)
        outs = [None] * n

        def mk(i):
            def fn():
                outs[i] = run_op(t, sc['ops'][i], baton, i)
            return fn
        try:
            baton.run([mk(i) for i in range(n)])
        except Stalled as e:
            explored += 1
            bad = {'thread': None, 'picks': prefix, 'outcome': ['stalled', e.info], 'schedule': ''.join(str(ev[1]) for ev in log.events)}
            break
        explored += 1
        taken = [k for (_cnt, k) in baton.choice_log]
        for i in range(len(baton.choice_log) - 1, len(prefix) - 1, -1):
            cnt, k = baton.choice_log[i]
            for alt in range(k + 1, cnt):
                stack.append(taken[:i] + [alt])
        if bad is None:
            for i in range(n):
                if core.canon(outs[i]) != core.canon(sc['refs'][i]):
                    bad = {'thread': i, 'picks': prefix, 'outcome': outs[i], 'schedule': ''.join(str(e[1]) for e in log.events)}
                    break
            if bad is None:
                changed = sorted(k for k, v in process_state().items() if ps_before[k] != v)
                if changed:
                    bad = {'thread': 0, 'picks': prefix, 'outcome': ['process state changed', changed], 'schedule': ''.join(str(e[1]) for e in log.events)}
            if bad is not None:
                break
    return {'explored': explored, 'complete': not stack and bad is None, 'bad': bad, 'state': module_state(t)}


def child_interleaved(sc):
    t = core.load_tree()
    log = EventLog(cap=100000)
    n = len(sc['ops'])
    trace_files = ()
    if sc.get('line_every'):
        trace_files = (t.engine.__file__, '<main loop>', t.csv.__file__)
    baton = Baton(n, sc['picks'], log, max_yields=20000, line_every=sc.get('line_every'), trace_files=trace_files)
    outs = [None] * n
    ps_before = process_state()

    def mk(i):
        def fn():
            outs[i] = run_op(t, sc['ops'][i], baton, i)
        return fn
    try:
        baton.run([mk(i) for i in range(n)])
    except Stalled as e:
        # no thread can move: the one holding the turn waits for something a suspended one holds
        return {'stalled': e.info, 'outcomes': outs, 'sched': ''.join(str(ev[1]) for ev in log.events), 'switches': baton.switches, 'overlap_switches': 0,
                'yields': baton.yields, 'errors': baton.errors, 'state': [False, False], 'process_state_changed': []}
    # projected schedule and overlap analysis
    sched = [e[1] for e in log.events]
    started = [False] * n
    last_index = {}
    for idx, e in enumerate(log.events):
        last_index[e[1]] = idx
    first_pull = {}
    for idx, e in enumerate(log.events):
        if e[2] == 'get_record' and e[3] == 'a' and e[1] not in first_pull:
            first_pull[e[1]] = idx
    overlap_switches = 0
    for idx in range(1, len(log.events)):
        a, b = log.events[idx - 1][1], log.events[idx][1]
        if a != b:
            mid = [i for i in range(n) if i in first_pull and first_pull[i] <= idx <= last_index.get(i, -1)]
            if len(mid) >= 2:
                overlap_switches += 1
    return {'outcomes': outs, 'sched': ''.join(str(x) for x in sched), 'switches': baton.switches, 'overlap_switches': overlap_switches,
            'yields': baton.yields, 'errors': baton.errors, 'state': module_state(t),
            'process_state_changed': sorted(k for k, v in process_state().items() if ps_before[k] != v)}


# ----------------------------------------------------------------------------- references

_ref_cache = {}


def reference(op):
    if 'from_handler' in op:
        op = {k: v for k, v in op.items() if k != 'from_handler'}     # how it is issued in a history is not part of the operation alone
    k = core.digest(op)
    r = _ref_cache.get(k)
    if r is None:
        if op['api'] == 'df':
            r = fork_call(child_single, op)      # needs pandas anyway
        else:
            # a separately started interpreter that has imported rbql and nothing else (no pandas, no sqlite3)
            r = bareref.call(op)
        if len(_ref_cache) > 50000:
            _ref_cache.clear()
        _ref_cache[k] = r
    return r


# ----------------------------------------------------------------------------- generation

def gen_picks(rng, n, length):
    style = rng.random()
    if style < 0.3:
        return [rng.randrange(n) for _ in range(length)]
    if style < 0.55:
        picks = []
        cur = rng.randrange(n)
        while len(picks) < length:
            run = rng.choice([1, 2, 3, 5, 8, 13])
            picks.extend([cur] * run)
            cur = (cur + rng.randrange(1, n)) % n if n > 1 else 0
        return picks[:length]
    if style < 0.75:
        return [i % n for i in range(length)]
    # one thread runs k steps, then the other runs to completion, then the rest
    k = rng.choice([2, 3, 4, 5, 6, 7, 8, 10])
    first = rng.randrange(n)
    other = (first + 1) % n
    return [first] * k + [other] * 60 + [first] * 10


def generate(rng, tier, idx):
    if rng.random() < 0.4:
        nops = rng.choice([1, 2, 2, 3, 3, 4, 5, 6])
        pool = 40 if tier == 'quick' else 400
        if rng.random() < 0.1:
            # every query of the history goes to sqlite over one connection owned by the caller, mixing output encodings,
            # failing and succeeding queries
            nops = max(nops, 2)
            pick = ['simple', 'star', 'where', 'err_runtime', 'err_parse', 'err_syntax', 'err_agg_misuse', 'order', 'distinct', 'agg_group', 'update', 'join', 'left_join', 'err_strict']
            ops = [gen_op(rng, rng.choice(pick), api='sqlite', pool=pool) for _ in range(nops)]
        else:
            ops = [gen_op(rng, pool=pool) for _ in range(nops)]
        if rng.random() < 0.35:
            # the same query text again over another table / column order / front-end: what a cache keyed by
            # (part of) the query text would confuse
            kind = rng.choice(KIND_NAMES if rng.random() < 0.5 else ['header_attr', 'except_header', 'join_header', 'header_dict', 'header_dict_update', 'header_dict_except', 'agg_float', 'agg_plain', 'like', 'join', 'init_code', 'with_noheader', 'with_noheaders', 'with_header', 'with_headers'])
            for _ in range(rng.choice([2, 2, 3])):
                ops.insert(rng.randrange(len(ops) + 1), gen_op(rng, kind, pool=pool))
        if rng.random() < 0.12:
            # several queries with a WITH (...) modifier in one interpreter
            api = rng.choice(['csv', 'cli', 'csviter'])
            for k in rng.sample(['with_noheader', 'with_noheaders', 'with_header', 'with_headers', 'with_header_table', 'with_noheader'], rng.choice([2, 3])):
                ops.insert(rng.randrange(len(ops) + 1), gen_op(rng, k, api=api, pool=pool))
            ops = ops[:8]
        if rng.random() < 0.12:
            # a JOIN on a table that is not there, followed later by the same JOIN when it is: what a cached lookup would get wrong
            api = rng.choice(['csv', 'cli', 'csv', 'table'])
            ops.insert(rng.randrange(len(ops) + 1), gen_op(rng, 'err_join_table_missing', api=api, pool=pool))
            ops.append(gen_op(rng, 'join', api=api, pool=pool))
            ops = ops[:7]
        if rng.random() < 0.1:
            # LEFT JOINs over join tables of different widths in one interpreter
            for k in [rng.choice(LEFT_JOIN_WIDTH_KINDS) for _ in range(rng.choice([2, 2, 3]))]:
                ops.insert(rng.randrange(len(ops) + 1), gen_op(rng, k, pool=pool))
            ops = ops[:8]
        ops = [dict(o) for o in ops]
        for i, o in enumerate(ops):
            if o['api'] == 'sqlite':
                o['slot'] = i
                o['sqlite_enc'] = rng.choice(['utf-8', 'utf-8', 'latin-1'])
                if rng.random() < 0.5 and o['rows']:
                    o['rows'] = [list(r) for r in o['rows']]
                    o['rows'][rng.randrange(len(o['rows']))][1] = rng.choice(['v\u00e9', 'Zo\u00eb', 'v1'])
        short_calls = rng.random() < 0.25     # a caller that never passes the optional arguments (per history, so that two such calls meet)
        for i, o in enumerate(ops):
            if o['api'] == 'table' and (short_calls or rng.random() < 0.1):
                o['omit_optional'] = True
            if i > 0 and rng.random() < 0.12:
                o['from_handler'] = True
        hist = {'part': 'A', 'ops': ops}
        if rng.random() < 0.2:
            hist['reuse_header_lists'] = True
        return hist
    n = 2 if rng.random() < (0.85 if tier == 'quick' else 0.7) else 3
    kinds = rng.sample(THREAD_KINDS, n)
    same_family = rng.random() < 0.35
    if same_family:
        # bias towards pairs that share a mechanism (aggregation / unnest / like / join)
        fam = rng.choice([['agg_group', 'agg_plain', 'agg_median', 'agg_any', 'join_agg', 'agg_float', 'agg_float_group', 'err_agg_nonnumeric'], ['unnest', 'unnest2', 'err_two_unnest'],
                          ['like', 'like2', 'where'], ['init_code', 'uses_foo', 'init_import', 'uses_math', 'init_code_raises'], ['join', 'left_join', 'join_two_keys', 'join_agg', 'join_header'], LEFT_JOIN_WIDTH_KINDS + ['left_join'],
                          ['err_runtime', 'agg_group', 'unnest', 'err_agg_misuse', 'init_code_raises'], ['update', 'update_nu', 'distinct', 'top', 'limit_distinct']])
        kinds = rng.sample(fam, min(n, len(fam)))
    ops = [gen_op(rng, k, api=rng.choice(['iter', 'iter', 'iter', 'csviter']), max_rows=4, pool=(40 if tier == 'quick' else 400)) for k in kinds]
    for op in ops:
        if op['api'] not in ('iter', 'csviter', 'table'):
            # Threads get the seam-level APIs only. The file / CLI front-ends work on one process-wide sys.stdout and, in this
            # harness, one work directory: two of them at once would interfere by construction of the harness, not of RBQL.
            # (Thorough soak, seed 303: WITH-modifier kinds had slipped through with api 'csv' and raised a false alarm.)
            op['api'] = 'csviter' if op['rows'] else 'iter'
    if len(ops) == 2 and rng.random() < (0.004 if tier == 'quick' else 0.03):
        # exhaustive: every interleaving of the seam steps of two queries over one-record tables
        for op in ops:
            op['rows'] = op['rows'][:1]
            if op.get('join_rows'):
                op['join_rows'] = op['join_rows'][:1]
        return {'part': 'B', 'ops': ops, 'picks': [], 'enumerate': True, 'max_schedules': 1500 if tier == 'quick' else 6000}
    sc = {'part': 'B', 'ops': ops, 'picks': gen_picks(rng, len(ops), rng.choice([20, 40, 60, 90]))}
    if rng.random() < ((0.3 if same_family else 0.08) if tier == 'quick' else 0.35):
        sc['line_every'] = rng.choice([1, 2, 3, 5, 7])
        sc['picks'] = gen_picks(rng, len(ops), rng.choice([100, 300, 600]))
    return sc


# ----------------------------------------------------------------------------- execution

def execute(sc):
    core.load_tree()
    counters = {}
    res = {'verdict': 'ok', 'oracle': None, 'counters': counters, 'evals': 1, 'nontrivial': 0, 'steps': 0}
    refs = [reference(op) for op in sc['ops']]
    for op, r in zip(sc['ops'], refs):
        bump(counters, 'op.%s.%s' % (op['kind'], r[0] if r[0] != 'exit' else 'exit%s' % r[1]))
        bump(counters, 'api.' + op['api'])
        if r[0] == 'err':
            bump(counters, 'fault.op_fails.' + r[1])
    if sc['part'] == 'A':
        obs = fork_call(child_history, sc)
        res['steps'] = len(sc['ops'])
        res['key'] = core.key64(sc['ops'])
        res['nontrivial'] = 1 if len(sc['ops']) >= 2 else 0
        bump(counters, 'part.A')
        for i, (out, ref) in enumerate(zip(obs['outcomes'], refs)):
            if core.canon(out) != core.canon(ref):
                res.update(verdict='violation', oracle='history', detail={'op_index': i, 'kind': sc['ops'][i]['kind'], 'in_history': out, 'alone': ref,
                                                                         'preceded_by': [o['kind'] for o in sc['ops'][:i]]})
                break
            if obs['states'][i] != [False, False]:
                res.update(verdict='violation', oracle='module_state', detail={'op_index': i, 'kind': sc['ops'][i]['kind'], 'debug_flags': obs['states'][i]})
                break
        if res['verdict'] == 'ok' and obs.get('process_state_changed'):
            res.update(verdict='violation', oracle='process_state', detail={'changed': obs['process_state_changed'], 'kind': sc['ops'][-1]['kind'], 'history': [o['kind'] for o in sc['ops']]})
        if res['verdict'] == 'ok' and obs.get('late_writes'):
            lw = obs['late_writes'][0]
            res.update(verdict='violation', oracle='history', detail={'op_index': lw['operation'], 'kind': sc['ops'][min(lw['operation'], len(sc['ops']) - 1)]['kind'],
                                                                       'late_write': lw, 'note': 'the output of an operation that had already returned (or failed) was written to afterwards'})
        res['digest'] = core.digest(_hash_neutral([obs, refs]))
        return res
    if sc.get('enumerate'):
        esc = dict(sc)
        esc['refs'] = refs
        obs = fork_call(child_enumerate, esc, timeout_s=300)
        bump(counters, 'part.B_enumerated')
        bump(counters, 'sched.enumerated_schedules', obs['explored'])
        if obs['complete']:
            bump(counters, 'probe.pair_enumerated_completely')
        res['steps'] = obs['explored']
        res['evals'] = obs['explored']
        res['nontrivial'] = 1 if obs['explored'] > 1 else 0
        res['key'] = core.key64(sc['ops'])
        if obs['bad'] is not None:
            b = obs['bad']
            # schedules of one enumeration run one after another in the same interpreter, so a failing schedule may owe its
            # failure to the ones before it: the replayable case is the enumeration up to and including that schedule
            case = dict(sc)
            case['max_schedules'] = obs['explored']
            if b['thread'] is None:
                b = dict(b, thread=0)      # a stall has no single victim: report it under the first query's kind
            res.update(verdict='violation', oracle='interleaving', case=case,
                       detail={'thread': b['thread'], 'kind': sc['ops'][b['thread']]['kind'], 'others': [o['kind'] for j, o in enumerate(sc['ops']) if j != b['thread']],
                               'interleaved': b['outcome'], 'alone': refs[b['thread']], 'schedule': b['schedule'][:200], 'found_by': 'enumeration'})
        res['digest'] = core.digest(_hash_neutral([obs['explored'], obs['complete'], obs['bad'], refs]))
        return res
    obs = fork_call(child_interleaved, sc, timeout_s=150)
    res['steps'] = obs['yields']
    bump(counters, 'part.B')
    if obs.get('stalled'):
        kinds = [op['kind'] for op in sc['ops']]
        res['key'] = core.key64([kinds, obs['sched']])
        res.update(verdict='violation', oracle='interleaving',
                   detail={'thread': 0, 'kind': kinds[0], 'others': kinds[1:], 'interleaved': ['stalled', obs['stalled']], 'alone': refs[0],
                           'schedule': obs['sched'][:200], 'found_by': 'no thread can move: the one holding the turn waits for something a suspended one holds'})
        res['digest'] = core.digest(_hash_neutral([kinds, obs['sched'], 'stalled']))
        return res
    bump(counters, 'sched.switches', obs['switches'])
    if sc.get('line_every'):
        bump(counters, 'sched.line_level_runs')
    if any(e for e in obs['errors']):
        if any(e == 'cap' for e in obs['errors']):
            bump(counters, 'discard.step_cap')
            res['verdict'] = 'discard'
            res['digest'] = core.digest(_hash_neutral([obs]))
            return res
        raise core.HarnessError('thread workload raised: %r' % (obs['errors'],))
    kinds = [op['kind'] for op in sc['ops']]
    res['key'] = core.key64([kinds, obs['sched']])
    if obs['overlap_switches'] >= 1:
        res['nontrivial'] = 1
        bump(counters, 'probe.switch_while_both_mid_run')
        if all(k.startswith('agg') or k == 'join_agg' for k in kinds):
            bump(counters, 'probe.both_in_aggregation')
        if all(k.startswith('unnest') or k == 'err_two_unnest' for k in kinds):
            bump(counters, 'probe.unnest_between_other_unnest')
        if any(r[0] == 'err' and r[1] == 'RbqlRuntimeError' for r in refs) and any(r[0] == 'ok' for r in refs):
            bump(counters, 'probe.one_fails_midway_other_continues')
    if obs['switches'] >= 6:
        bump(counters, 'probe.switches_ge_6')
    for i, (out, ref) in enumerate(zip(obs['outcomes'], refs)):
        if core.canon(out) != core.canon(ref):
            res.update(verdict='violation', oracle='interleaving', detail={'thread': i, 'kind': kinds[i], 'others': [k for j, k in enumerate(kinds) if j != i],
                                                                          'interleaved': out, 'alone': ref, 'schedule': obs['sched'][:200]})
            break
    if res['verdict'] == 'ok' and obs['state'] != [False, False]:
        res.update(verdict='violation', oracle='module_state', detail={'debug_flags': obs['state']})
    if res['verdict'] == 'ok' and obs.get('process_state_changed'):
        res.update(verdict='violation', oracle='process_state', detail={'changed': obs['process_state_changed'], 'kind': kinds[0], 'others': kinds[1:], 'schedule': obs['sched'][:200]})
    res['digest'] = core.digest(_hash_neutral([obs, refs]))
    return res


def signature(sc, result):
    d = result.get('detail') or {}
    return 'C16/%s/%s' % (result['oracle'], d.get('kind'))


def sample_view(sc):
    return sc


def shrinks(sc):
    ops = sc['ops']
    if sc['part'] == 'A':
        for i in range(len(ops) - 1):
            c = dict(sc)
            c['ops'] = ops[:i] + ops[i + 1:]
            yield c
    else:
        if len(ops) > 2:
            for i in range(len(ops)):
                c = dict(sc)
                c['ops'] = ops[:i] + ops[i + 1:]
                yield c
        picks = sc['picks']
        for cut in (0, len(picks) // 4, len(picks) // 2, len(picks) - 1):
            if cut < len(picks):
                c = dict(sc)
                c['picks'] = picks[:cut]
                yield c
        for i, p in enumerate(picks):
            if p != 0:
                c = dict(sc)
                c['picks'] = picks[:i] + [0] + picks[i + 1:]
                yield c
                if i > 30:
                    break
        if sc.get('line_every'):
            c = dict(sc)
            c.pop('line_every')
            yield c
    for oi, op in enumerate(ops):
        for key in ('rows', 'join_rows'):
            rows = op.get(key)
            if rows:
                for ri in range(len(rows)):
                    c = dict(sc)
                    nop = dict(op)
                    nop[key] = rows[:ri] + rows[ri + 1:]
                    c['ops'] = ops[:oi] + [nop] + ops[oi + 1:]
                    yield c
        if op['api'] not in ('table', 'iter'):
            c = dict(sc)
            nop = dict(op)
            nop['api'] = 'table'
            c['ops'] = ops[:oi] + [nop] + ops[oi + 1:]
            yield c
        for flag in ('omit_optional', 'from_handler'):
            if op.get(flag):
                c = dict(sc)
                nop = dict(op)
                nop.pop(flag)
                c['ops'] = ops[:oi] + [nop] + ops[oi + 1:]
                yield c
