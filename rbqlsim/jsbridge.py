# One Node driver per worker process; Python owns generation, comparison, shrinking, reporting.

import json
import os
import select
import subprocess

from . import core

_proc = None   # (owner pid, Popen, receive buffer)
_inherited = False   # True in a forked child that talks to its parent's driver (the parent is blocked meanwhile)
_abandoned = False   # the child gave the inherited driver up (hang / dirty / explicit stop): the parent has to restart it


class DriverDied(core.HarnessError):
    pass


def _stderr_tail(p):
    try:
        return (p.stderr.read() or b'').decode('utf-8', 'replace')[-800:]
    except Exception:
        return ''


def _roundtrip(req, timeout_s):
    global _proc, _inherited, _abandoned
    _pid, p, buf = _proc
    data = (json.dumps(req, ensure_ascii=True, separators=(',', ':')) + '\n').encode('ascii')
    try:
        p.stdin.write(data)
        p.stdin.flush()
    except (BrokenPipeError, OSError):
        _proc = None
        _abandoned = _abandoned or _inherited
        _inherited = False
        raise DriverDied('node driver stdin closed: %s' % _stderr_tail(p))
    fd = p.stdout.fileno()
    while True:
        nl = buf.find(b'\n')
        if nl != -1:
            line = bytes(buf[:nl])
            del buf[:nl + 1]
            resp = json.loads(line.decode('utf-8'))
            if 'driver_error' in resp:
                raise core.HarnessError('driver error: %s' % resp['driver_error'])
            return resp
        ready, _, _ = select.select([fd], [], [], timeout_s)
        if not ready:
            p.kill()
            _proc = None
            _abandoned = _abandoned or _inherited
            _inherited = False
            raise DriverDied('node driver timed out after %ss on %s' % (timeout_s, json.dumps(req)[:300]))
        chunk = os.read(fd, 1 << 16)
        if not chunk:
            _proc = None
            _abandoned = _abandoned or _inherited
            _inherited = False
            raise DriverDied('node driver closed stdout: %s' % _stderr_tail(p))
        buf += chunk


def adopt_inherited():
    """Called first thing in a forked child whose parent owns a live driver and waits for the child: requests go to the
    same Node process (one at a time, so the line protocol stays in step). The child never closes or reaps it."""
    global _proc, _inherited, _abandoned
    _abandoned = False
    if _proc is not None and _proc[0] != os.getpid():
        _proc = (os.getpid(), _proc[1], _proc[2])
        _inherited = True


def abandoned():
    return _abandoned


def ensure():
    global _proc
    if _proc is not None and _proc[0] == os.getpid() and (_inherited or _proc[1].poll() is None):
        return
    js_dir = os.path.join(core.REPO, 'rbql-js')
    driver = os.path.join(core.VERIF, 'js', 'driver.js')
    env = dict(os.environ)
    env.pop('NODE_OPTIONS', None)
    p = subprocess.Popen(['node', driver, js_dir], stdin=subprocess.PIPE, stdout=subprocess.PIPE, stderr=subprocess.PIPE, env=env, bufsize=0)
    _proc = (os.getpid(), p, bytearray())
    r = _roundtrip({'kind': 'ping'}, 60)
    if not r.get('pong'):
        raise DriverDied('driver did not answer ping: %r' % (r,))


def call(req, timeout_s=60):
    ensure()
    resp = _roundtrip(req, timeout_s)
    if resp.get('dirty'):
        # a request was abandoned (hang): start from a fresh Node process for the next one
        stop()
    return resp


def stop():
    global _proc, _inherited, _abandoned
    if _proc is not None and _inherited:
        # not ours to close or reap: leave it to the parent, and use a driver of our own from here on
        _proc = None
        _inherited = False
        _abandoned = True
        return
    if _proc is not None and _proc[0] == os.getpid():
        try:
            _proc[1].stdin.close()
            _proc[1].wait(timeout=5)
        except Exception:
            try:
                _proc[1].kill()
            except Exception:
                pass
    _proc = None
